#!/bin/bash
# usage: tools/verify_seed.sh <seed id> <worktree with the change and autosar-data/tests/seed_demo.rs>
# Stores patch.diff and the demonstration under /verif/seeded/<id>/ and confirms, in a fresh scratch copy of /repo:
#  - the existing test suite passes with the change, - the demonstration fails with it and passes without it.
set -u
ID="$1"; WT="$2"
DEST=/verif/seeded/$ID
mkdir -p "$DEST"
git -C "$WT" diff -- autosar-data/src autosar-data-specification/src > "$DEST/patch.diff"
cp "$WT/autosar-data/tests/seed_demo.rs" "$DEST/seed_demo.rs"
SCR=/var/tmp/seedverify-$ID-$$
rm -rf "$SCR"; mkdir -p "$SCR"; git -C /repo archive HEAD | tar -x -C "$SCR"
cd "$SCR"
export CARGO_NET_OFFLINE=true
patch -p1 -s < "$DEST/patch.diff" || { echo "$ID: patch does not apply"; exit 3; }
SUITE=$(cargo test --workspace --no-fail-fast --offline 2>&1 | grep -E "^test result" | awk '{p+=$4; f+=$6} END {print p" passed "f" failed"}')
mkdir -p autosar-data/tests; cp "$DEST/seed_demo.rs" autosar-data/tests/seed_demo.rs
WITH=$(cargo test --offline -p autosar-data --test seed_demo 2>&1 | grep -E "^test result" | tail -1)
patch -p1 -R -s < "$DEST/patch.diff"
WITHOUT=$(cargo test --offline -p autosar-data --test seed_demo 2>&1 | grep -E "^test result" | tail -1)
echo "$ID: suite with change: $SUITE | demo with change: $WITH | demo without: $WITHOUT"
cd /; rm -rf "$SCR"; rm -f /tmp/file.arxml /tmp/new.arxml /tmp/not_arxml.bin
