#!/bin/bash
# usage: tools/verify_seed_unit.sh <seed id> <worktree with the change and autosar-data/src/seed_demo_test.rs>
# Like verify_seed.sh, for demonstrations that need a private lock and therefore live inside the crate as a unit-test
# module (`#[cfg(test)] mod seed_demo_test;` appended to lib.rs). Stores patch.diff (library change only) and the
# demonstration under /verif/seeded/<id>/ and confirms in a fresh scratch copy of /repo: the existing tests pass with the
# change, the demonstration fails with it and passes without it.
set -u
ID="$1"; WT="$2"
DEST=/verif/seeded/$ID
mkdir -p "$DEST"
git -C "$WT" diff -- autosar-data/src autosar-data-specification/src ':!autosar-data/src/lib.rs' > "$DEST/patch.diff"
cp "$WT/autosar-data/src/seed_demo_test.rs" "$DEST/seed_demo_test.rs"
SCR=/var/tmp/seedverify-$ID-$$
rm -rf "$SCR"; mkdir -p "$SCR"; git -C /repo archive HEAD | tar -x -C "$SCR"
cd "$SCR"
export CARGO_NET_OFFLINE=true
patch -p1 -s < "$DEST/patch.diff" || { echo "$ID: patch does not apply"; exit 3; }
SUITE=$(cargo test --workspace --no-fail-fast --offline 2>&1 | grep -E "^test result" | awk '{p+=$4; f+=$6} END {print p" passed "f" failed"}')
cp "$DEST/seed_demo_test.rs" autosar-data/src/seed_demo_test.rs
echo '#[cfg(test)] mod seed_demo_test;' >> autosar-data/src/lib.rs
WITH=$(cargo test --offline -p autosar-data --lib seed_demo 2>&1 | grep -E "^test result" | tail -1)
patch -p1 -R -s < "$DEST/patch.diff"
WITHOUT=$(cargo test --offline -p autosar-data --lib seed_demo 2>&1 | grep -E "^test result" | tail -1)
echo "$ID: suite with change: $SUITE | demo with change: $WITH | demo without: $WITHOUT"
cd /; rm -rf "$SCR"; rm -f /tmp/file.arxml /tmp/new.arxml /tmp/not_arxml.bin
