#!/bin/bash
# usage: tools/run_mutant.sh <patch file> <property> [<property> ...]
# Applies the patch to a scratch copy of /repo (under /var/tmp), runs the quick checks of the named properties against
# the copy (VERIF_REPO) and reports whether each check raised a VIOLATION. The copy and its build output are removed.
set -u
PATCH="$(readlink -f "$1")"; shift
NAME=$(basename "$PATCH" .patch); NAME=$(basename "$NAME" .diff); [ "$NAME" = "patch" ] && NAME=$(basename "$(dirname "$PATCH")")
SCRATCH="/var/tmp/mutant-$NAME-$$"
rm -rf "$SCRATCH"; mkdir -p "$SCRATCH"
git -C /repo archive HEAD | tar -x -C "$SCRATCH"
if ! (cd "$SCRATCH" && git init -q . >/dev/null 2>&1; patch -p1 -s < "$PATCH"); then
  echo "$NAME: PATCH DOES NOT APPLY"; rm -rf "$SCRATCH"; exit 3
fi
TAG=$(echo "$SCRATCH" | md5sum | cut -c1-10)
RC=0
for P in "$@"; do
  mkdir -p "/var/tmp/mutant-out-$NAME-$$"
  OUT=$(cd /verif && VERIF_REPO="$SCRATCH" VERIF_OUT="/var/tmp/mutant-out-$NAME-$$" /verif/bin/check "$P" quick 2>&1)
  CODE=$?
  NV=$(echo "$OUT" | grep -c "^VIOLATION")
  echo "$NAME $P: exit=$CODE violations=$NV"
  echo "$OUT" | grep -A2 "^VIOLATION" | head -12 | sed 's/^/    /' | cut -c1-260
  if [ "$CODE" != "1" ]; then RC=1; fi
done
rm -rf "$SCRATCH" "/var/tmp/verif-sim-$TAG" "/var/tmp/mutant-out-$NAME-$$"
exit $RC
