#!/bin/bash
# Sensitivity self-test: every deliberately broken variant of the code must be reported (exit 1, unlisted signature)
# by the quick check of the property it breaks. Scratch copies live under /var/tmp and are removed after each run.
cd "$(dirname "$0")/.."
run() { tools/run_mutant.sh "$@" 2>&1 | grep -E "exit=|DOES NOT"; }
run mutants/M01_path_unchecked_blocking_read.patch C12 C15
run mutants/N13_serialize_hold_model_write.patch C15
run mutants/P01_get_or_create_check_then_act.patch C16
run mutants/M11_file_dfs_unwrap.patch C12
run mutants/N03_set_ref_target_dest_before_check.patch C11
run mutants/M06_skip_remove_reference_origin.patch C05
run mutants/N11_fix_reference_origins_no_remove_old.patch C05
run mutants/N01_copy_register_only_top.patch C04 C13
run mutants/N02_move_full_keep_src_ids.patch C04
run mutants/M12_move_local_skip_ref_rewrite_nested.patch C06
run mutants/M08_add_to_file_restricted_skip_parents.patch C10
run mutants/P04_merge_equal_membership_not_extended.patch C10
run mutants/M09_deep_copy_share_child.patch C13 C03
run seeded/S-C03/patch.diff C03
run seeded/S-C04/patch.diff C04
run seeded/S-C05/patch.diff C05 C06
run seeded/S-C10/patch.diff C10
run seeded/S-C11/patch.diff C11
run seeded/S-C12/patch.diff C12
run seeded/S-C13/patch.diff C13
run seeded/S-C15/patch.diff C15
run seeded/S-C16/patch.diff C16
run seeded/S-C03b/patch.diff C03
run seeded/S-C10b/patch.diff C10
run seeded/S-C11b/patch.diff C11
run seeded/S-C13b/patch.diff C13
run seeded/S-C15b/patch.diff C15
run seeded/S-C16b/patch.diff C16
run seeded/S-C11c/patch.diff C11
run seeded/S-C04c/patch.diff C04
run seeded/S-C10c/patch.diff C10
run seeded/S-C06c/patch.diff C06
run seeded/S-C13c/patch.diff C13 C04
run seeded/S-C15c/patch.diff C15
run seeded/S-C16c/patch.diff C16
run seeded/S-C03c/patch.diff C03
run seeded/S-C05c/patch.diff C05
run seeded/S-C12c/patch.diff C12
run seeded/S-C10d/patch.diff C10
run seeded/S-C04d/patch.diff C04
run seeded/S-C06d/patch.diff C06
run seeded/S-C12d/patch.diff C12
run seeded/S-C03d/patch.diff C03
run seeded/S-C05d/patch.diff C05
run seeded/S-C13d/patch.diff C13
run mutants/W01_write_swallows_io_error.patch C10
run mutants/W02_write_skips_unrestricted_files.patch C10
run mutants/W03_write_sorts_model_first.patch C11
run mutants/R01_revert_lexer_header_fix.patch C12
run mutants/R02_revert_trim_byte_string_fix.patch C12
run mutants/R03_revert_set_character_data_fix.patch C04 C05
run mutants/R04_revert_insert_range_fix.patch C12
run mutants/R05_revert_set_reference_target_fix.patch C11
# the reverse direction: behaviour-preserving edits (comment lines shifting every line number, a renamed private function,
# reordered independent statements) must leave every check silent (exit 0)
tools/run_mutant.sh mutants/Z01_neutral_edits.patch C03 C04 C05 C06 C10 C11 C12 C13 C15 C16 2>&1 | grep -E "exit=|DOES NOT" | sed 's/$/   (expected: exit=0)/'
