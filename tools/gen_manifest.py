#!/usr/bin/env python3
import json, subprocess
hooks = subprocess.run(["git","-C","/repo","log","--format=%H %s"],capture_output=True,text=True).stdout.splitlines()
hook_commits=[l.split()[0] for l in hooks if "verif hooks" in l]
claimed = {
 "C03": ("exploration","seeded single-client histories of all structural calls (half of them with one ghost lock fault), tree/navigation/iterator invariants recomputed from content() after every call, stale-handle calls must fail and change nothing","deterministic simulation: seeded history generation under a simulated lock table and clock, ghost lock faults, reference-tree oracle","5 C03"),
 "C04": ("exploration","same histories; path index compared after every call with paths recomputed from SHORT-NAME texts (entries, lookups, neighbours, own path)","deterministic simulation: seeded histories with ghost lock faults, reference index oracle","5 C04"),
 "C05": ("exploration","same histories; referrer lists and invalid-reference report compared after every call with references recomputed from content()","deterministic simulation: seeded histories with ghost lock faults, reference referrer oracle","5 C05"),
 "C06": ("exploration","rename/move-heavy histories; every reference's target object recorded before and compared after each successful rename or move, under ghost lock faults the call must fail cleanly or satisfy the post-condition","deterministic simulation: seeded histories with ghost lock faults, per-call reference oracle","5 C06"),
 "C10": ("exploration","file-set-heavy histories on 1-4 files; membership invariants after every call, every file re-serialized and loaded into a fresh model after every modifying call, remove_file post-condition; write() and load_file on a simulated disk with failed and torn writes and read errors: after an acknowledged write the disk holds exactly the text of every file","deterministic simulation: seeded histories with ghost lock faults and disk faults (simulated file system: read errors, failed and torn writes), reload differential, disk-versus-model oracle after write()","5 C10"),
 "C11": ("fault_enumeration","for sampled fault-free histories every try/timed lock acquisition of every call is failed once (ghost neighbour), every successful load is repeated with torn/corrupted buffers at token boundaries, every disk access of write() / load_file is failed once (nothing written / torn file / read error); plus random histories with late-failing arguments; any Err must leave the canonical snapshot unchanged","deterministic simulation: exhaustive single-fault enumeration per call (ghost lock conflicts, torn/corrupt buffers, disk read and write errors on a simulated file system) + seeded histories","5 C11"),
 "C12": ("exploration","fault-free single-client histories over all public calls with live, stale, foreign, orphaned and self operands, torn / corrupted / recoverably defective documents, load_file / write on a simulated disk with read errors and failed or torn writes; panics caught, self-deadlock (would hang) detected on the lock table, any ParentElementLocked is spurious, step budget; recursive calls on element chains up to 12 000 (thorough 25 000) levels deep in separate processes","deterministic simulation: single client on the simulated lock table and clock (timed try-locks cost no real time), seeded histories","5 C12"),
 "C13": ("exploration","copy/duplicate-heavy histories; copy compared with a harness-side expected copy (version filter from the specification), node disjointness, findability, source unchanged, duplicate text equality, independence of models that own no operand","deterministic simulation: seeded histories with ghost lock faults, reference copy oracle","5 C13"),
 "C15": ("exploration","2-3 client threads under a seeded scheduler (uniform / k pre-emptions / priority change points, stalls) on a parking_lot-faithful lock table; exact wait-for-cycle detection; operation-pair catalogue walked by run index, 6 schedules per scenario; plus a lock-order harvest over single-client histories whose unlisted edges are turned into concrete deadlocks by a directed schedule search","deterministic simulation: seeded schedule search with exact deadlock detection, lock-order harvest + directed search","5 C15 and 11.4"),
 "C16": ("exploration","pair scenarios (15 % twins: the same call on the same operands) under seeded schedules with stalls; results and final state of every completed run compared with every sequential order executed by the real code in a fresh model; plus the lock-only-neighbour differential (a history with one ghost fault vs the same history without)","deterministic simulation: seeded schedule search, sequential-order (serializability) oracle, ghost differential","5 C16 and 11.4"),
}
na = {
 "C01":"load/serialize round trip is a pure function of the input bytes and mode; no schedule, clock or fault takes part",
 "C02":"totality of the loader is a pure function of the input bytes (torn/corrupt buffers are used as faults only for their effect on the model, under C11/C12)",
 "C07":"agreement of editor and validator is a function of (element type, version, content, position, value) over the specification tables",
 "C08":"strict/lenient agreement is a pure function of the input bytes",
 "C09":"the merged result is a function of file contents and load order (orders are inputs, not schedules); concurrent loading is decided under C16",
 "C14":"sorting is a pure function of the sibling contents; sort() as a long lock holder is part of the C15/C16 workloads",
 "C17":"compatibility check and set_version are functions of (document, version pair)",
 "C18":"finite generated tables and pure lookups",
 "C19":"each validator is a pure function of a byte string",
 "C20":"formatting and parsing values are pure functions",
}
checks=[]
for pid,(cat,text,tech,ref) in claimed.items():
    checks.append({
      "property_id":pid,
      "quick_cmd":f"bin/check {pid} quick",
      "thorough_cmd":f"bin/check {pid} thorough",
      "evidence_file":f"/verif/evidence/{pid}.json",
      "replay_cmd_template":"bin/check --replay {path}",
      "engine":"sim",
      "level_claimed":{"category":cat,"text":text,"design_ref":"DESIGN.md section "+ref},
      "level_note":"trusted: the lock model of parking_lot 0.12.5 RawRwLock (cross-checked against the real lock after every grant), the harness-side reference oracles, lock-granularity scheduling points; sampling, not proof; known findings listed in KNOWN_FINDINGS.txt are reported as KNOWN-FINDING lines, any other signature is a VIOLATION",
      "technique":tech,
    })
m={
 "version":1,
 "setup_cmd":"cd /verif/sim && CARGO_NET_OFFLINE=true cargo build --release --offline",
 "hooks":{
   "guard":"cargo feature `verif` of crate autosar-data (off by default)",
   "enable":"the simulator crate /verif/sim depends on /repo/autosar-data with features = [\"verif\"]; bin/check rebuilds it from /repo's working tree",
   "baseline_off_cmd":"cd /repo && cargo test --workspace --no-fail-fast --offline",
   "source_commits":hook_commits,
   "add_only":True,
 },
 "engines":[{"name":"sim","path":"/verif/sim","serves_properties":list(claimed.keys()),"kind_free_text":"hand-written deterministic simulator: baton-passing scheduler over real OS threads, logical lock table with the parking_lot RawRwLock policy, simulated clock, ghost lock holders / stalls / torn buffers as faults, seeded workloads, replay and minimisation"}],
 "checks":checks,
 "not_applicable":[{"property_id":k,"reason":v} for k,v in na.items()],
 "notes":"Exit codes: 0 held (KNOWN-FINDING lines list pre-existing genuine defects from KNOWN_FINDINGS.txt), 1 VIOLATION property=<id> replay=<path>, 2 harness error. VERIF_SEED selects the base seed (default fixed). Fix commits in /repo start with 'fix:' and are recorded as 'fixed:' lines in KNOWN_FINDINGS.txt.",
}
json.dump(m,open("/verif/MANIFEST.json","w"),indent=1)
print("ok",len(checks),"checks")
