#!/usr/bin/env python3
"""Run a check under several base seeds and aggregate the signatures it reports (violations and known findings).
usage: collect_findings.py <property> <runs per seed> <seed> [<seed> ...]
Prints one candidate KNOWN_FINDINGS line per signature that is not listed yet, plus a saturation curve."""
import subprocess, sys, re, os, collections
prop, runs, seeds = sys.argv[1], sys.argv[2], sys.argv[3:]
binp = os.environ.get("VERIF_BIN", "/verif/sim/target/release/verif-sim")
tier = os.environ.get("TIER", "quick")
seen = collections.OrderedDict()
known_seen = set()
curve = []
for seed in seeds:
    env = dict(os.environ, VERIF_SEED=seed, VERIF_RUNS=runs)
    out = subprocess.run([binp, "check", prop, tier], env=env, capture_output=True, text=True).stdout
    sig = None
    new = 0
    for line in out.splitlines():
        m = re.match(r"\s+(signature|edges not listed as known findings): (.*)$", line)
        if m:
            sigs = m.group(2).split(" + ") if m.group(1).startswith("edges") else [m.group(2)]
            sig = sigs
            continue
        m = re.match(r"\s+first seen at run (seed|index) (\d+) \((\d+) occurrences\): (.*)$", line)
        if m and sig:
            for s in sig:
                if s not in seen:
                    seen[s] = (m.group(4), int(m.group(3)), seed)
                    new += 1
            if not line.strip().startswith("first"):
                sig = None
        m = re.match(r"KNOWN-FINDING: property=\S+ sig=(.*?) :: ", line)
        if m:
            known_seen.add(m.group(1))
    curve.append((seed, new, len(seen)))
    print(f"# seed {seed}: {new} new unknown signatures, {len(seen)} total, known seen so far {len(known_seen)}", file=sys.stderr)
for s, (detail, n, seed) in seen.items():
    print(f"open: property={prop} sig={s} :: {detail[:300]}")
