#!/bin/bash
# usage: tools/sweep.sh <tier> <seed> [<seed> ...]   - run every check under each base seed; print whatever is not a listed finding
cd "$(dirname "$0")/.."
TIER="$1"; shift
for SEED in "$@"; do
  for P in C03 C04 C05 C06 C10 C11 C12 C13 C15 C16; do
    OUT=$(VERIF_SEED=$SEED VERIF_OUT=${VERIF_OUT:-/var/tmp/sweep-out} bin/check $P $TIER 2>&1)
    CODE=$?
    echo "seed=$SEED $P exit=$CODE $(echo "$OUT" | grep -a -E "^C[0-9]+:" | cut -c1-160)"
    echo "$OUT" | grep -a -E "signature|deadlock:|edges not listed|lock-order edge not listed|first seen|HARNESS|crash|NOTE" | cut -c1-400 | sed 's/^/    /'
  done
done
