#!/bin/bash
# run every thorough check once (default seed or $1) and print the summary lines
cd "$(dirname "$0")/.."
for P in ${THOROUGH_ORDER:-C03 C04 C05 C06 C10 C11 C12 C13 C15 C16}; do
  START=$(date +%s)
  OUT=$(VERIF_SEED=${1:-20261004} VERIF_OUT=${VERIF_OUT:-/var/tmp/thorough-out} bin/check $P thorough 2>&1)
  CODE=$?
  echo "$P exit=$CODE $(( $(date +%s) - START ))s $(echo "$OUT" | grep -a -E "^C[0-9]+:" | cut -c1-200)"
  echo "$OUT" | grep -a -E "signature|deadlock:|edges not listed|lock-order edge not listed|first seen|HARNESS|crash|NOTE" | cut -c1-400 | sed 's/^/    /'
done
