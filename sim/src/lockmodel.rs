//! Self-test (not part of any verdict): scripted scenarios are run against a real parking_lot::RwLock with real
//! threads and against the simulator's lock table; the observable answers must agree.

use crate::engine::probe::{Ans, Table};
use autosar_data::verif::{LockKind, LockMode};
use parking_lot::RwLock;
use std::sync::mpsc::channel;
use std::sync::Arc;
use std::time::Duration;

const R: LockMode = LockMode::Read;
const W: LockMode = LockMode::Write;
const D: Duration = Duration::from_millis(10);

fn a(b: bool) -> Ans {
    if b { Ans::Granted } else { Ans::Failed }
}

/// returns (name, real answers, model answers)
pub fn scenarios() -> Vec<(&'static str, Vec<Ans>, Vec<Ans>)> {
    let mut out = Vec::new();

    // S1: a reader holds, a writer queues up: the holder's further try_read / try_read_for fail, try_write fails,
    //     after the reader leaves the writer gets the lock
    {
        let l = Arc::new(RwLock::new(()));
        let g = l.read();
        let l2 = l.clone();
        let (tx, rx) = channel();
        let h = std::thread::spawn(move || {
            let _w = l2.write();
            tx.send(()).unwrap();
        });
        std::thread::sleep(Duration::from_millis(150)); // let the writer park
        let mut real = vec![a(l.try_read().is_some()), a(l.try_read_for(D).is_some()), a(l.try_write().is_some())];
        let writer_waiting = rx.try_recv().is_err();
        real.push(if writer_waiting { Ans::Blocked } else { Ans::Granted });
        drop(g);
        real.push(a(rx.recv_timeout(Duration::from_secs(5)).is_ok()));
        h.join().unwrap();

        let mut t = Table::new(3);
        assert_eq!(t.request(0, 1, R, LockKind::Blocking), Ans::Granted);
        let w = t.request(1, 1, W, LockKind::Blocking);
        let mut model = vec![t.request(0, 1, R, LockKind::Try)];
        let tr = t.request(0, 1, R, LockKind::Timed(D));
        let expired = t.advance(11_000_000);
        model.push(if tr == Ans::Blocked && expired.contains(&0) { Ans::Failed } else { tr });
        model.push(t.request(0, 1, W, LockKind::Try));
        model.push(w);
        t.release(0, 1, R);
        model.push(a(t.wake(1)));
        out.push(("reader holds, writer queued", real, model));
    }

    // S2: a timed writer gives up while a reader holds; afterwards new readers are admitted again
    {
        let l = Arc::new(RwLock::new(()));
        let g = l.read();
        let l2 = l.clone();
        let h = std::thread::spawn(move || l2.try_write_for(Duration::from_millis(40)).is_some());
        let got = h.join().unwrap();
        let real = vec![a(got), a(l.try_read().is_some())];
        drop(g);

        let mut t = Table::new(3);
        t.request(0, 1, R, LockKind::Blocking);
        let w = t.request(1, 1, W, LockKind::Timed(Duration::from_millis(40)));
        let expired = t.advance(41_000_000);
        let model = vec![if w == Ans::Blocked && expired.contains(&1) { Ans::Failed } else { w }, t.request(2, 1, R, LockKind::Try)];
        out.push(("timed writer gives up", real, model));
    }

    // S3: two readers: try_write fails; idle lock: try_write succeeds
    {
        let l = RwLock::new(());
        let g1 = l.read();
        let g2 = l.read();
        let mut real = vec![a(l.try_write().is_some())];
        drop(g1);
        drop(g2);
        real.push(a(l.try_write().is_some()));

        let mut t = Table::new(3);
        t.request(0, 1, R, LockKind::Blocking);
        t.request(1, 1, R, LockKind::Blocking);
        let mut model = vec![t.request(2, 1, W, LockKind::Try)];
        t.release(0, 1, R);
        t.release(1, 1, R);
        model.push(t.request(2, 1, W, LockKind::Try));
        out.push(("try_write under readers / idle", real, model));
    }

    // S4: a writer holds: timed read and try_write of another thread fail; after release both work
    {
        let l = Arc::new(RwLock::new(()));
        let g = l.write();
        let l2 = l.clone();
        let h = std::thread::spawn(move || (l2.try_read_for(D).is_some(), l2.try_write().is_some(), l2.try_read().is_some()));
        let (r1, r2, r3) = h.join().unwrap();
        let mut real = vec![a(r1), a(r2), a(r3)];
        drop(g);
        real.push(a(l.try_read().is_some()));

        let mut t = Table::new(3);
        t.request(0, 1, W, LockKind::Blocking);
        let tr = t.request(1, 1, R, LockKind::Timed(D));
        let expired = t.advance(11_000_000);
        let mut model = vec![if tr == Ans::Blocked && expired.contains(&1) { Ans::Failed } else { tr }, t.request(1, 1, W, LockKind::Try), t.request(1, 1, R, LockKind::Try)];
        t.release(0, 1, W);
        model.push(t.request(1, 1, R, LockKind::Try));
        out.push(("writer holds", real, model));
    }

    // S5: a second writer behind a pending writer: both wait; readers are refused meanwhile; after the reader leaves
    //     exactly one writer proceeds, then the other
    {
        let l = Arc::new(RwLock::new(()));
        let g = l.read();
        let (tx, rx) = channel();
        let mut hs = Vec::new();
        for _ in 0..2 {
            let l2 = l.clone();
            let tx = tx.clone();
            hs.push(std::thread::spawn(move || {
                let _w = l2.write();
                tx.send(()).unwrap();
                std::thread::sleep(Duration::from_millis(20));
            }));
        }
        std::thread::sleep(Duration::from_millis(150));
        let mut real = vec![a(l.try_read().is_some()), if rx.try_recv().is_err() { Ans::Blocked } else { Ans::Granted }];
        drop(g);
        real.push(a(rx.recv_timeout(Duration::from_secs(5)).is_ok()));
        real.push(a(rx.recv_timeout(Duration::from_secs(5)).is_ok()));
        for h in hs {
            h.join().unwrap();
        }

        let mut t = Table::new(4);
        t.request(0, 1, R, LockKind::Blocking);
        let w1 = t.request(1, 1, W, LockKind::Blocking);
        let w2 = t.request(2, 1, W, LockKind::Blocking);
        let mut model = vec![t.request(3, 1, R, LockKind::Try), if w1 == Ans::Blocked && w2 == Ans::Blocked { Ans::Blocked } else { Ans::Granted }];
        t.release(0, 1, R);
        let first = t.wake(1);
        model.push(a(first));
        t.release(1, 1, W);
        model.push(a(t.wake(2)));
        out.push(("two writers queued behind a reader", real, model));
    }
    out
}

pub fn run() -> i32 {
    let mut bad = 0;
    for (name, real, model) in scenarios() {
        let ok = real == model;
        println!("lockmodel {name}: real {real:?} model {model:?} {}", if ok { "agree" } else { "DISAGREE" });
        if !ok {
            bad += 1;
        }
    }
    if bad == 0 { 0 } else { 2 }
}
