//! The simulator core: baton-passing scheduler, logical lock table with the parking_lot
//! RawRwLock policy, simulated clock, ghost / stall faults, exact deadlock detection.
//!
//! Exactly one managed thread runs at any time. A managed thread gives up the baton only inside
//! `acquire` (before every lock acquisition), at operation boundaries and when it finishes.
//! Every choice (who runs next, whether a stall or a ghost fault happens) goes through
//! `State::decide`, which either draws from the run's PRNG or reads the next value of a script;
//! all choices are recorded, so a run is a pure function of (scenario, configuration, decisions).

use autosar_data::verif::{Decision, LockClass, LockKind, LockMode, LockRequest, SimHooks};
use std::cell::Cell;
use std::collections::HashMap;
use std::panic::Location;
use std::sync::{Condvar, Mutex, MutexGuard, OnceLock};

use crate::rng::Rng;

pub const MAX_THREADS: usize = 8;
const NONE: usize = usize::MAX;
pub const STEP_COST_NS: u64 = 5_000;
/// simulated cost of one whole-file read or write
pub const IO_COST_NS: u64 = 200_000;

thread_local! {
    static TID: Cell<usize> = const { Cell::new(NONE) };
}

/// private panic payload used to unwind managed threads when a run is torn down
pub struct SimAbort;

#[derive(Clone, Debug)]
pub enum Policy {
    /// uniform choice among the enabled threads at every point
    Uniform,
    /// keep running the current thread while it is enabled; pre-empt at the given step numbers
    Sticky { preempt_at: Vec<u64> },
    /// PCT-like: run the enabled thread with the highest priority; at the change points the running thread drops to the lowest priority
    Pct { prio: Vec<u32>, change_at: Vec<u64> },
}

#[derive(Clone, Debug)]
pub enum Ghost {
    Off,
    /// every eligible try/timed acquisition fails with probability ppm / 1e6, at most `max` times per run
    Random { ppm: u32, max: u32 },
    /// the k-th try/timed acquisition of the operation with the given label fails (if eligible)
    At(Vec<(u32, u64)>),
}

#[derive(Clone, Debug)]
pub struct RunCfg {
    pub seed: u64,
    pub n_threads: usize,
    pub policy: Policy,
    /// probability (ppm) per scheduling point that the running thread stalls for 1..50 ms of simulated time
    pub stall_ppm: u32,
    pub ghost: Ghost,
    pub step_budget: u64,
    pub keep_trace: bool,
    /// replay: take decisions from this list instead of the PRNG
    pub script: Option<Vec<u32>>,
    /// replay in tolerant mode: if the script runs out or does not fit, fall back to the PRNG instead of reporting a divergence
    pub tolerant: bool,
}

impl RunCfg {
    pub fn solo(seed: u64) -> Self {
        Self {
            seed,
            n_threads: 1,
            policy: Policy::Uniform,
            stall_ppm: 0,
            ghost: Ghost::Off,
            step_budget: 5_000_000,
            keep_trace: false,
            script: None,
            tolerant: false,
        }
    }
}

#[derive(Clone, Debug)]
pub struct Held {
    pub lock: u64,
    pub class: LockClass,
    pub mode: LockMode,
    pub site: &'static Location<'static>,
    pub op: u32,
}

#[derive(Clone, Debug)]
pub struct DlThread {
    pub tid: usize,
    pub op: u32,
    pub wanted: LockRequest,
    pub has_bit: bool,
    /// everything the thread holds, oldest first
    pub held: Vec<Held>,
    /// the held entries on which the previous thread of the cycle waits (empty for a thread that only waits)
    pub blocking: Vec<Held>,
}

#[derive(Clone, Debug)]
pub enum Finding {
    /// a cycle in the wait-for graph of two or more threads
    Deadlock { threads: Vec<DlThread> },
    /// a blocking request that conflicts with a lock the same thread holds
    SelfDeadlock { thread: DlThread },
    /// a blocking read of a lock that the same thread already holds in read mode (deadlocks as soon as any writer queues up)
    ReentrantRead { tid: usize, op: u32, lock: u64, class: LockClass, first: &'static Location<'static>, again: &'static Location<'static> },
    /// the run did not finish within its step budget
    Budget { steps: u64 },
    /// no thread can run and no cycle explains it (should not happen)
    Stuck { detail: String },
}

#[derive(Clone, Copy, Debug, PartialEq, Eq)]
pub enum Outcome {
    Granted,
    Failed,
    Abort,
}

#[derive(Clone, Copy, Debug)]
struct Pending {
    req: LockRequest,
    has_bit: bool,
    deadline: Option<u64>,
    expired: bool,
}

#[derive(Clone, Copy, Debug)]
enum Status {
    /// at a scheduling point, optionally about to make a request
    AtPoint(Option<LockRequest>),
    Blocked(Pending),
    Finished,
}

struct ThreadSt {
    status: Status,
    resume: Option<Outcome>,
    held: Vec<Held>,
    cur_op: u32,
    prio: u32,
    /// grants to this thread so far
    grants: u64,
    /// set while the current operation holds no lock after having held one: grants to other threads at that moment
    gap_open: Option<u64>,
}

#[derive(Default)]
struct LockSt {
    readers: Vec<usize>,
    writer: Option<usize>,
    writer_granted: bool,
}

#[derive(Clone, Debug, Default)]
pub struct Counters {
    pub steps: u64,
    pub acquisitions: u64,
    pub try_timed: u64,
    pub blocked: u64,
    pub switches: u64,
    pub stalls: u64,
    pub stall_ns: u64,
    pub ghost_fired: u64,
    pub ghost_fired_timed: u64,
    pub ghost_fired_try: u64,
    pub timeouts: u64,
    pub timeouts_self: u64,
    pub try_failed: u64,
    pub clock_jumps: u64,
    pub reentrant_reads: u64,
    pub max_nesting: u64,
    pub io_points: u64,
}

#[derive(Clone, Debug)]
pub struct Ev {
    pub step: u64,
    pub tid: usize,
    pub op: u32,
    pub what: &'static str,
    pub lock: u64,
    pub class: LockClass,
    pub mode: LockMode,
    pub kind: LockKind,
    pub site: Option<&'static Location<'static>>,
    pub clock: u64,
}

pub struct State {
    active: usize,
    running: bool,
    aborting: bool,
    threads: Vec<ThreadSt>,
    locks: HashMap<u64, LockSt>,
    pub clock: u64,
    rng: Rng,
    cfg: RunCfg,
    script_pos: usize,
    pub decisions: Vec<u32>,
    pub diverged: bool,
    pub findings: Vec<Finding>,
    pub counters: Counters,
    pub log_hash: u64,
    pub grant_hash: u64,
    pub trace: Vec<Ev>,
    /// locks with an id below this value existed before the current operation started (only they can be held by a neighbour)
    published_below: u64,
    /// (operation label, index of the try/timed acquisition within the operation) at which a ghost fault fired
    pub ghost_fired_at: Vec<(u32, u64)>,
    /// the requests that the ghost faults refused, in firing order
    pub ghost_fired_req: Vec<LockRequest>,
    /// number of try/timed acquisitions of the current operation so far
    pub op_try_timed: u64,
    pub reentrant_seen: Vec<(u32, &'static Location<'static>, &'static Location<'static>)>,
    /// step counter value at the start of the client phase (policies count steps from here)
    pub phase_base: u64,
    /// nested blocking acquisitions seen: (operation, held lock, requested lock); harvested by the single-client driver
    pub nested: Vec<(u32, Held, LockRequest)>,
    pub harvest_nested: bool,
    pub total_grants: u64,
    /// operations that released all their locks in mid-flight while another thread acquired locks (labels)
    pub interrupted_ops: Vec<u32>,
}

pub struct Engine {
    m: Mutex<State>,
    cvs: Vec<Condvar>,
    main_cv: Condvar,
}

static ENGINE: OnceLock<Engine> = OnceLock::new();

pub fn engine() -> &'static Engine {
    ENGINE.get_or_init(|| {
        let e = Engine {
            m: Mutex::new(State::new(RunCfg::solo(0))),
            cvs: (0..MAX_THREADS).map(|_| Condvar::new()).collect(),
            main_cv: Condvar::new(),
        };
        e
    })
}

/// install the engine as the crate's lock hooks (once per process)
pub fn install() {
    let e: &'static Engine = engine();
    autosar_data::verif::install_hooks(e);
}

/// run a closure on the current thread with the simulator switched off (plain parking_lot behaviour)
pub fn passthrough<R>(f: impl FnOnce() -> R) -> R {
    let old = TID.with(|t| t.replace(NONE));
    struct Restore(usize);
    impl Drop for Restore {
        fn drop(&mut self) {
            TID.with(|t| t.set(self.0));
        }
    }
    let _r = Restore(old);
    f()
}

pub fn current_tid() -> Option<usize> {
    let t = TID.with(|t| t.get());
    if t == NONE { None } else { Some(t) }
}

fn mix(h: &mut u64, v: u64) {
    *h ^= v.wrapping_add(0x9E37_79B9_7F4A_7C15).wrapping_add(*h << 6).wrapping_add(*h >> 2);
    *h = h.wrapping_mul(0x0000_0100_0000_01B3);
}

fn mode_n(m: LockMode) -> u64 {
    match m {
        LockMode::Read => 1,
        LockMode::Write => 2,
    }
}

impl State {
    pub fn published_below(&self) -> u64 {
        self.published_below
    }

    fn new(cfg: RunCfg) -> Self {
        let n = cfg.n_threads;
        let mut threads = Vec::new();
        for i in 0..n {
            let prio = match &cfg.policy {
                Policy::Pct { prio, .. } => prio.get(i).copied().unwrap_or(0),
                _ => 0,
            };
            threads.push(ThreadSt {
                status: Status::Finished,
                resume: None,
                held: Vec::new(),
                cur_op: 0,
                prio,
                grants: 0,
                gap_open: None,
            });
        }
        Self {
            active: NONE,
            running: false,
            aborting: false,
            threads,
            locks: HashMap::new(),
            clock: 0,
            rng: Rng::new(cfg.seed ^ 0xA5A5_5A5A_DEAD_BEEF),
            cfg,
            script_pos: 0,
            decisions: Vec::new(),
            diverged: false,
            findings: Vec::new(),
            counters: Counters::default(),
            log_hash: 0x1234_5678,
            grant_hash: 0x8765_4321,
            trace: Vec::new(),
            published_below: u64::MAX,
            ghost_fired_at: Vec::new(),
            ghost_fired_req: Vec::new(),
            op_try_timed: 0,
            reentrant_seen: Vec::new(),
            phase_base: 0,
            nested: Vec::new(),
            harvest_nested: false,
            total_grants: 0,
            interrupted_ops: Vec::new(),
        }
    }

    /// one nondeterministic choice in 0..n
    fn decide(&mut self, n: u32) -> u32 {
        let v = if let Some(script) = &self.cfg.script {
            if self.script_pos < script.len() && script[self.script_pos] < n {
                let v = script[self.script_pos];
                self.script_pos += 1;
                v
            } else {
                if !self.cfg.tolerant {
                    self.diverged = true;
                }
                self.script_pos += 1;
                if self.cfg.tolerant { (self.rng.next_u64() % n as u64) as u32 } else { 0 }
            }
        } else {
            (self.rng.next_u64() % n as u64) as u32
        };
        self.decisions.push(v);
        v
    }

    fn ev(&mut self, tid: usize, what: &'static str, req: Option<&LockRequest>, lock: u64, class: LockClass, mode: LockMode) {
        let code = what.as_bytes().iter().fold(0u64, |a, b| a.wrapping_mul(31).wrapping_add(*b as u64));
        mix(&mut self.log_hash, tid as u64);
        mix(&mut self.log_hash, code);
        mix(&mut self.log_hash, lock);
        mix(&mut self.log_hash, mode_n(mode));
        if what == "grant" {
            mix(&mut self.grant_hash, tid as u64);
            mix(&mut self.grant_hash, lock);
            mix(&mut self.grant_hash, mode_n(mode));
        }
        if self.cfg.keep_trace {
            let op = if tid < self.threads.len() { self.threads[tid].cur_op } else { 0 };
            self.trace.push(Ev {
                step: self.counters.steps,
                tid,
                op,
                what,
                lock,
                class,
                mode,
                kind: req.map(|r| r.kind).unwrap_or(LockKind::Blocking),
                site: req.map(|r| r.site),
                clock: self.clock,
            });
        }
    }

    fn ev_req(&mut self, tid: usize, what: &'static str, req: &LockRequest) {
        self.ev(tid, what, Some(req), req.id, req.class, req.mode);
    }

    fn ev_plain(&mut self, tid: usize, what: &'static str) {
        self.ev(tid, what, None, 0, LockClass::Other, LockMode::Read);
    }

    fn lock_mut(&mut self, id: u64) -> &mut LockSt {
        self.locks.entry(id).or_default()
    }

    fn grantable_now(&self, tid: usize, p: &Pending) -> bool {
        let empty = LockSt::default();
        let l = self.locks.get(&p.req.id).unwrap_or(&empty);
        match p.req.mode {
            LockMode::Read => l.writer.is_none() || (p.req.recursive && !l.readers.is_empty() && !l.writer_granted),
            LockMode::Write => {
                if p.has_bit {
                    debug_assert!(l.writer == Some(tid));
                    l.readers.is_empty()
                } else {
                    // can at least take the writer bit (re-attempt)
                    l.writer.is_none()
                }
            }
        }
    }

    fn expire(&mut self) {
        let clock = self.clock;
        for t in 0..self.threads.len() {
            if let Status::Blocked(p) = self.threads[t].status {
                if let Some(d) = p.deadline {
                    if !p.expired && d <= clock && !self.grantable_now(t, &p) {
                        let mut p2 = p;
                        p2.expired = true;
                        self.threads[t].status = Status::Blocked(p2);
                    }
                }
            }
        }
    }

    fn do_grant(&mut self, tid: usize, req: &LockRequest) {
        let op = self.threads[tid].cur_op;
        self.total_grants += 1;
        self.threads[tid].grants += 1;
        if let Some(others_then) = self.threads[tid].gap_open.take() {
            let others_now = self.total_grants - self.threads[tid].grants;
            if others_now > others_then && !self.interrupted_ops.contains(&op) {
                self.interrupted_ops.push(op);
            }
        }
        {
            let l = self.lock_mut(req.id);
            match req.mode {
                LockMode::Read => l.readers.push(tid),
                LockMode::Write => {
                    l.writer = Some(tid);
                    l.writer_granted = true;
                }
            }
        }
        self.threads[tid].held.push(Held {
            lock: req.id,
            class: req.class,
            mode: req.mode,
            site: req.site,
            op,
        });
        let depth = self.threads[tid].held.len() as u64;
        if depth > self.counters.max_nesting {
            self.counters.max_nesting = depth;
        }
        self.counters.acquisitions += 1;
        self.ev_req(tid, "grant", req);
    }

    fn holds(&self, tid: usize, lock: u64) -> (bool, bool) {
        let mut r = false;
        let mut w = false;
        for h in &self.threads[tid].held {
            if h.lock == lock {
                match h.mode {
                    LockMode::Read => r = true,
                    LockMode::Write => w = true,
                }
            }
        }
        (r, w)
    }

    /// threads that must act before the blocked thread `t` can proceed (empty for timed waiters and non-blocked threads)
    fn blockers(&self, t: usize) -> Vec<usize> {
        if let Status::Blocked(p) = &self.threads[t].status {
            if p.deadline.is_some() {
                return Vec::new();
            }
            if let Some(l) = self.locks.get(&p.req.id) {
                return match p.req.mode {
                    LockMode::Read => l.writer.into_iter().collect(),
                    LockMode::Write => {
                        if p.has_bit {
                            l.readers.clone()
                        } else {
                            l.writer.into_iter().collect()
                        }
                    }
                };
            }
        }
        Vec::new()
    }

    fn find_cycle(&self, start: usize) -> Option<Vec<usize>> {
        // depth-first search for a path start -> ... -> start
        fn dfs(st: &State, cur: usize, start: usize, path: &mut Vec<usize>, seen: &mut Vec<bool>) -> bool {
            for b in st.blockers(cur) {
                if b == start {
                    return true;
                }
                if b < seen.len() && !seen[b] {
                    seen[b] = true;
                    path.push(b);
                    if dfs(st, b, start, path, seen) {
                        return true;
                    }
                    path.pop();
                }
            }
            false
        }
        let mut path = vec![start];
        let mut seen = vec![false; self.threads.len()];
        seen[start] = true;
        if dfs(self, start, start, &mut path, &mut seen) { Some(path) } else { None }
    }

    fn dl_thread(&self, t: usize, waited_by: Option<usize>) -> DlThread {
        let (wanted, has_bit) = match &self.threads[t].status {
            Status::Blocked(p) => (p.req, p.has_bit),
            Status::AtPoint(Some(r)) => (*r, false),
            _ => unreachable!("dl_thread on a thread that does not wait"),
        };
        let mut blocking = Vec::new();
        if let Some(w) = waited_by {
            if let Status::Blocked(pw) = &self.threads[w].status {
                for h in &self.threads[t].held {
                    if h.lock == pw.req.id {
                        blocking.push(h.clone());
                    }
                }
                // a pending writer blocks readers without holding anything yet
            }
        }
        DlThread {
            tid: t,
            op: self.threads[t].cur_op,
            wanted,
            has_bit,
            held: self.threads[t].held.clone(),
            blocking,
        }
    }

    fn report_cycle(&mut self, cycle: Vec<usize>) {
        let n = cycle.len();
        let mut threads = Vec::new();
        for (i, t) in cycle.iter().enumerate() {
            // cycle[i] waits for cycle[i+1]; so cycle[i] is waited on by cycle[i-1]
            let pred = cycle[(i + n - 1) % n];
            threads.push(self.dl_thread(*t, Some(pred)));
        }
        if n == 1 {
            let thread = threads.pop().unwrap();
            self.findings.push(Finding::SelfDeadlock { thread });
        } else {
            self.findings.push(Finding::Deadlock { threads });
        }
        self.aborting = true;
    }

    /// try to satisfy a request of thread `tid` right now. Returns Some(outcome) or None if the thread is now blocked.
    fn attempt(&mut self, tid: usize, req: LockRequest, prior: Option<Pending>) -> Option<Outcome> {
        let first = prior.is_none();
        let (holds_r, holds_w) = self.holds(tid, req.id);
        let (writer, n_readers) = {
            let l = self.lock_mut(req.id);
            (l.writer, l.readers.len())
        };
        let is_try_or_timed = !matches!(req.kind, LockKind::Blocking);
        if first {
            self.ev_req(tid, "request", &req);
            if self.harvest_nested && matches!(req.kind, LockKind::Blocking) && !self.threads[tid].held.is_empty() && self.nested.len() < 4096 {
                let op = self.threads[tid].cur_op;
                for h in self.threads[tid].held.clone() {
                    if !self.nested.iter().any(|(o, hh, r)| *o == op && hh.lock == h.lock && hh.mode == h.mode && r.id == req.id && r.mode == req.mode) {
                        self.nested.push((op, h, req));
                    }
                }
            }
            if is_try_or_timed {
                self.counters.try_timed += 1;
                self.op_try_timed += 1;
            }
            if req.mode == LockMode::Read && holds_r && !holds_w && !req.recursive && matches!(req.kind, LockKind::Blocking) {
                // re-entrant blocking read: fine on an idle lock, a certain deadlock once a writer queues up
                self.counters.reentrant_reads += 1;
                let first_site = self.threads[tid].held.iter().find(|h| h.lock == req.id).map(|h| h.site).unwrap();
                let op = self.threads[tid].cur_op;
                if !self.reentrant_seen.iter().any(|(o, a, b)| *o == op && *a == first_site && *b == req.site) {
                    self.reentrant_seen.push((op, first_site, req.site));
                    self.findings.push(Finding::ReentrantRead {
                        tid,
                        op,
                        lock: req.id,
                        class: req.class,
                        first: first_site,
                        again: req.site,
                    });
                }
            }
        }
        let writer_granted = self.locks.get(&req.id).map(|l| l.writer_granted).unwrap_or(false);
        let grantable = match req.mode {
            // a recursive read may overtake a writer that is still waiting for the readers to leave
            LockMode::Read => writer.is_none() || (req.recursive && n_readers > 0 && !writer_granted),
            LockMode::Write => match req.kind {
                // try_write only succeeds on a completely idle lock
                _ => writer.is_none() && n_readers == 0,
            },
        };
        if grantable {
            // ghost fault: a neighbour that only takes locks makes this try/timed acquisition fail
            if first && is_try_or_timed && req.id < self.published_below {
                let idx = (self.threads[tid].cur_op, self.op_try_timed - 1);
                let fire = match &self.cfg.ghost {
                    Ghost::Off => false,
                    Ghost::Random { ppm, max } => {
                        let (ppm, max) = (*ppm, *max);
                        (self.ghost_fired_at.len() as u32) < max && self.decide(1_000_000) < ppm
                    }
                    Ghost::At(list) => list.contains(&idx),
                };
                if fire {
                    self.counters.ghost_fired += 1;
                    self.ghost_fired_at.push(idx);
                    self.ghost_fired_req.push(req);
                    if let LockKind::Timed(d) = req.kind {
                        self.counters.ghost_fired_timed += 1;
                        self.clock += d.as_nanos() as u64;
                        self.expire();
                    } else {
                        self.counters.ghost_fired_try += 1;
                    }
                    self.ev_req(tid, "ghost-fail", &req);
                    return Some(Outcome::Failed);
                }
            }
            self.do_grant(tid, &req);
            return Some(Outcome::Granted);
        }
        match req.kind {
            LockKind::Try => {
                self.counters.try_failed += 1;
                self.ev_req(tid, "try-fail", &req);
                Some(Outcome::Failed)
            }
            LockKind::Blocking | LockKind::Timed(_) => {
                // take the writer bit if nobody has it: from now on new readers are refused
                let mut has_bit = prior.map(|p| p.has_bit).unwrap_or(false);
                if req.mode == LockMode::Write && writer.is_none() {
                    let l = self.lock_mut(req.id);
                    l.writer = Some(tid);
                    l.writer_granted = false;
                    has_bit = true;
                }
                let deadline = match (prior, req.kind) {
                    (Some(p), _) => p.deadline,
                    (None, LockKind::Timed(d)) => Some(self.clock + d.as_nanos() as u64),
                    _ => None,
                };
                if first {
                    self.counters.blocked += 1;
                    self.ev_req(tid, "block", &req);
                }
                self.threads[tid].status = Status::Blocked(Pending {
                    req,
                    has_bit,
                    deadline,
                    expired: false,
                });
                if deadline.is_none() {
                    if let Some(cycle) = self.find_cycle(tid) {
                        self.report_cycle(cycle);
                    }
                }
                None
            }
        }
    }

    fn release(&mut self, tid: usize, id: u64, class: LockClass, mode: LockMode) {
        if let Some(pos) = self.threads[tid].held.iter().rposition(|h| h.lock == id && h.mode == mode) {
            self.threads[tid].held.remove(pos);
        }
        let mut remove = false;
        if let Some(l) = self.locks.get_mut(&id) {
            match mode {
                LockMode::Read => {
                    if let Some(p) = l.readers.iter().position(|r| *r == tid) {
                        l.readers.swap_remove(p);
                    }
                }
                LockMode::Write => {
                    if l.writer == Some(tid) && l.writer_granted {
                        l.writer = None;
                        l.writer_granted = false;
                    }
                }
            }
            remove = l.readers.is_empty() && l.writer.is_none();
        }
        if remove {
            self.locks.remove(&id);
        }
        if self.threads[tid].held.is_empty() {
            self.threads[tid].gap_open = Some(self.total_grants - self.threads[tid].grants);
        }
        self.ev(tid, "release", None, id, class, mode);
    }

    fn all_finished(&self) -> bool {
        self.threads.iter().all(|t| matches!(t.status, Status::Finished))
    }
}

impl Engine {
    fn st(&self) -> MutexGuard<'_, State> {
        self.m.lock().unwrap_or_else(|e| e.into_inner())
    }

    /// start a run: fresh state, lock ids restart at 1
    pub fn begin_run(&self, cfg: RunCfg) {
        assert!(cfg.n_threads <= MAX_THREADS);
        let mut st = self.st();
        *st = State::new(cfg);
        st.running = true;
        autosar_data::verif::reset_lock_ids(1);
        crate::simfs::reset();
    }

    /// end a run and take its state (findings, counters, decisions, trace)
    pub fn end_run(&self) -> State {
        let mut st = self.st();
        st.running = false;
        std::mem::replace(&mut *st, State::new(RunCfg::solo(0)))
    }

    /// make the calling thread managed thread `tid` (single-client runs: the worker's own thread)
    pub fn enter(&self, tid: usize) {
        TID.with(|t| t.set(tid));
        let mut st = self.st();
        st.active = tid;
        st.threads[tid].status = Status::AtPoint(None);
        st.threads[tid].resume = None;
    }

    pub fn leave(&self) {
        let tid = TID.with(|t| t.replace(NONE));
        if tid != NONE {
            let mut st = self.st();
            if tid < st.threads.len() {
                st.threads[tid].status = Status::Finished;
            }
        }
    }

    pub fn with_state<R>(&self, f: impl FnOnce(&mut State) -> R) -> R {
        let mut st = self.st();
        f(&mut st)
    }

    pub fn clock(&self) -> u64 {
        self.st().clock
    }

    pub fn counters(&self) -> Counters {
        self.st().counters.clone()
    }

    /// the calling managed thread starts operation `op`; only locks created before this moment can be held by ghosts
    pub fn op_start(&self, op: u32) {
        let tid = TID.with(|t| t.get());
        if tid == NONE {
            return;
        }
        {
            let mut st = self.st();
            st.threads[tid].cur_op = op;
            st.threads[tid].gap_open = None;
            st.op_try_timed = 0;
            st.published_below = autosar_data::verif::peek_next_lock_id();
            st.ev_plain(tid, "op-start");
        }
        let out = self.yield_point(tid, Status::AtPoint(None));
        if out == Outcome::Abort {
            std::panic::resume_unwind(Box::new(SimAbort));
        }
    }

    /// a file-system access of the calling client: costs simulated time and is a point where the scheduler may switch
    pub fn io_point(&self) {
        let tid = TID.with(|t| t.get());
        if tid == NONE {
            return;
        }
        {
            let mut st = self.st();
            if !st.running {
                return;
            }
            st.clock += IO_COST_NS;
            st.counters.io_points += 1;
            st.ev_plain(tid, "io");
        }
        let out = self.yield_point(tid, Status::AtPoint(None));
        if out == Outcome::Abort {
            std::panic::resume_unwind(Box::new(SimAbort));
        }
    }

    pub fn op_end(&self, _op: u32) {
        let tid = TID.with(|t| t.get());
        if tid == NONE {
            return;
        }
        let mut st = self.st();
        st.ev_plain(tid, "op-end");
    }

    pub fn aborting(&self) -> bool {
        self.st().aborting
    }

    /// run the given bodies as managed threads 0..n under the scheduler; returns when all have finished or were torn down.
    /// Each body's panic (other than the private abort payload) is returned as a message.
    pub fn run_clients(&'static self, bodies: Vec<Box<dyn FnOnce() + Send + 'static>>) -> Vec<Option<String>> {
        let n = bodies.len();
        {
            let mut st = self.st();
            assert!(n <= st.threads.len(), "run configured for fewer threads");
            for t in st.threads.iter_mut() {
                t.status = Status::Finished;
                t.resume = None;
                t.held.clear();
            }
            for t in 0..n {
                st.threads[t].status = Status::AtPoint(None);
            }
        }
        let mut handles = Vec::new();
        for (tid, body) in bodies.into_iter().enumerate() {
            let eng: &'static Engine = self;
            let h = std::thread::Builder::new()
                .name(format!("client{tid}"))
                .stack_size(8 << 20)
                .spawn(move || {
                    TID.with(|t| t.set(tid));
                    // wait for the first turn
                    let out = eng.wait_turn(tid);
                    let mut panic_msg = None;
                    if out != Outcome::Abort {
                        let r = std::panic::catch_unwind(std::panic::AssertUnwindSafe(body));
                        if let Err(payload) = r {
                            if payload.downcast_ref::<SimAbort>().is_none() {
                                panic_msg = Some(crate::panic_message(&payload));
                            }
                        }
                    }
                    eng.finish(tid);
                    TID.with(|t| t.set(NONE));
                    panic_msg
                })
                .expect("spawn client thread");
            handles.push(h);
        }
        // hand the baton to the first thread and wait until everything has finished
        {
            let mut st = self.st();
            st.active = NONE;
            st.phase_base = st.counters.steps;
            self.dispatch(&mut st, None);
            while !(st.all_finished() && st.active == NONE) {
                st = self.main_cv.wait(st).unwrap_or_else(|e| e.into_inner());
            }
        }
        let mut res = Vec::new();
        for h in handles {
            res.push(h.join().unwrap_or(Some("client thread died".to_string())));
        }
        assert_eq!(res.len(), n);
        res
    }

    fn wait_turn(&self, tid: usize) -> Outcome {
        let mut st = self.st();
        loop {
            if st.active == tid {
                if let Some(out) = st.threads[tid].resume.take() {
                    return out;
                }
            }
            st = self.cvs[tid].wait(st).unwrap_or_else(|e| e.into_inner());
        }
    }

    fn finish(&self, tid: usize) {
        let mut st = self.st();
        // a thread that unwinds may still be recorded as holding locks if guards leaked; clear them
        let held: Vec<Held> = st.threads[tid].held.drain(..).collect();
        for h in held {
            st.threads[tid].held.push(h.clone());
            st.release(tid, h.lock, h.class, h.mode);
        }
        st.threads[tid].status = Status::Finished;
        st.ev_plain(tid, "finish");
        self.dispatch(&mut st, Some(tid));
    }

    fn yield_point(&self, tid: usize, status: Status) -> Outcome {
        let mut st = self.st();
        st.threads[tid].status = status;
        st.threads[tid].resume = None;
        self.dispatch(&mut st, Some(tid));
        loop {
            if st.active == tid {
                if let Some(out) = st.threads[tid].resume.take() {
                    return out;
                }
            }
            st = self.cvs[tid].wait(st).unwrap_or_else(|e| e.into_inner());
        }
    }

    /// decide which thread runs next and hand it the baton. Runs on the thread that currently has the baton.
    fn dispatch(&self, st: &mut State, me: Option<usize>) {
        loop {
            if st.aborting {
                let next = (0..st.threads.len()).find(|t| !matches!(st.threads[*t].status, Status::Finished));
                match next {
                    Some(n) => {
                        // undo a pending writer bit so that the table stays consistent while unwinding
                        if let Status::Blocked(p) = st.threads[n].status {
                            if p.has_bit {
                                if let Some(l) = st.locks.get_mut(&p.req.id) {
                                    if l.writer == Some(n) && !l.writer_granted {
                                        l.writer = None;
                                    }
                                }
                            }
                        }
                        st.threads[n].status = Status::AtPoint(None);
                        st.threads[n].resume = Some(Outcome::Abort);
                        st.active = n;
                        if Some(n) != me {
                            self.cvs[n].notify_one();
                        }
                    }
                    None => {
                        st.active = NONE;
                        self.main_cv.notify_all();
                    }
                }
                return;
            }
            st.counters.steps += 1;
            if st.counters.steps > st.cfg.step_budget {
                let steps = st.counters.steps;
                st.findings.push(Finding::Budget { steps });
                st.aborting = true;
                continue;
            }
            st.clock += STEP_COST_NS;
            // stall fault: the thread that arrived here is frozen for a while, holding what it holds
            if st.cfg.stall_ppm > 0 && me.is_some() && !st.threads[me.unwrap()].held.is_empty() {
                let ppm = st.cfg.stall_ppm;
                if st.decide(1_000_000) < ppm {
                    let ms = 1 + st.decide(50) as u64;
                    st.clock += ms * 1_000_000;
                    st.counters.stalls += 1;
                    st.counters.stall_ns += ms * 1_000_000;
                    let t = me.unwrap();
                    st.ev_plain(t, "stall");
                }
            }
            st.expire();

            let mut enabled: Vec<usize> = Vec::new();
            for t in 0..st.threads.len() {
                let en = match &st.threads[t].status {
                    Status::AtPoint(_) => true,
                    Status::Blocked(p) => p.expired || st.grantable_now(t, p),
                    Status::Finished => false,
                };
                if en {
                    enabled.push(t);
                }
            }
            if enabled.is_empty() {
                // nothing can run: jump to the next deadline, or finish, or report a deadlock
                let next_deadline = st
                    .threads
                    .iter()
                    .filter_map(|t| match &t.status {
                        Status::Blocked(p) if !p.expired => p.deadline,
                        _ => None,
                    })
                    .min();
                if let Some(d) = next_deadline {
                    if d > st.clock {
                        st.clock = d;
                    }
                    st.counters.clock_jumps += 1;
                    // at the deadline an ungrantable timed waiter expires
                    st.expire();
                    // a waiter that is grantable exactly now would have been enabled; make sure we make progress
                    continue;
                }
                if st.all_finished() {
                    st.active = NONE;
                    self.main_cv.notify_all();
                    return;
                }
                // global deadlock: find a cycle from any blocked thread
                let blocked: Vec<usize> = (0..st.threads.len())
                    .filter(|t| matches!(st.threads[*t].status, Status::Blocked(_)))
                    .collect();
                let mut found = false;
                for b in &blocked {
                    if let Some(c) = st.find_cycle(*b) {
                        st.report_cycle(c);
                        found = true;
                        break;
                    }
                }
                if !found {
                    st.findings.push(Finding::Stuck {
                        detail: format!("blocked threads {blocked:?} without a wait-for cycle"),
                    });
                    st.aborting = true;
                }
                continue;
            }

            // choose
            let cur = me.filter(|m| enabled.contains(m));
            let step = st.counters.steps - st.phase_base;
            let chosen = if enabled.len() == 1 {
                enabled[0]
            } else {
                match st.cfg.policy.clone() {
                    Policy::Uniform => {
                        let i = st.decide(enabled.len() as u32) as usize;
                        enabled[i]
                    }
                    Policy::Sticky { preempt_at } => {
                        if let (Some(c), false) = (cur, preempt_at.contains(&step)) {
                            c
                        } else {
                            let others: Vec<usize> = enabled.iter().copied().filter(|t| Some(*t) != cur).collect();
                            let i = st.decide(others.len() as u32) as usize;
                            others[i]
                        }
                    }
                    Policy::Pct { change_at, .. } => {
                        if change_at.contains(&step) {
                            if let Some(c) = me {
                                let low = st.threads.iter().map(|t| t.prio).min().unwrap_or(0);
                                st.threads[c].prio = low.saturating_sub(1);
                            }
                        }
                        let mut best = enabled[0];
                        for t in &enabled {
                            if st.threads[*t].prio > st.threads[best].prio {
                                best = *t;
                            }
                        }
                        best
                    }
                }
            };
            if Some(chosen) != me {
                st.counters.switches += 1;
            }

            // perform the chosen thread's step
            let outcome: Option<Outcome> = match st.threads[chosen].status {
                Status::AtPoint(None) => Some(Outcome::Granted),
                Status::AtPoint(Some(req)) => st.attempt(chosen, req, None),
                Status::Blocked(p) => {
                    if p.expired {
                        st.counters.timeouts += 1;
                        let (_, hw) = st.holds(chosen, p.req.id);
                        let (hr, _) = st.holds(chosen, p.req.id);
                        if hw || (hr && p.req.mode == LockMode::Write) {
                            st.counters.timeouts_self += 1;
                        }
                        if p.has_bit {
                            if let Some(l) = st.locks.get_mut(&p.req.id) {
                                if l.writer == Some(chosen) && !l.writer_granted {
                                    l.writer = None;
                                }
                            }
                        }
                        st.ev_req(chosen, "timeout", &p.req);
                        Some(Outcome::Failed)
                    } else if p.req.mode == LockMode::Write && !p.has_bit {
                        st.attempt(chosen, p.req, Some(p))
                    } else {
                        // grant to the waiter
                        if p.req.mode == LockMode::Write {
                            // it holds the bit; do_grant marks it granted
                        }
                        st.do_grant(chosen, &p.req);
                        Some(Outcome::Granted)
                    }
                }
                Status::Finished => unreachable!(),
            };
            match outcome {
                Some(out) => {
                    st.threads[chosen].status = Status::AtPoint(None);
                    st.threads[chosen].resume = Some(out);
                    st.active = chosen;
                    if Some(chosen) != me {
                        self.cvs[chosen].notify_one();
                    }
                    return;
                }
                None => {
                    // the chosen thread is blocked now; choose again
                    continue;
                }
            }
        }
    }
}

/// Self-test support: drive the lock table directly (no threads) with a script of requests and releases and report
/// what the model answers, so that the answers can be compared with a real parking_lot::RwLock under real threads.
pub mod probe {
    use super::*;

    pub struct Table {
        st: State,
    }

    #[derive(Debug, Clone, Copy, PartialEq, Eq)]
    pub enum Ans {
        Granted,
        Failed,
        Blocked,
    }

    impl Table {
        pub fn new(n: usize) -> Self {
            let mut cfg = RunCfg::solo(0);
            cfg.n_threads = n;
            let mut st = State::new(cfg);
            for t in st.threads.iter_mut() {
                t.status = Status::AtPoint(None);
            }
            Self { st }
        }

        pub fn request(&mut self, tid: usize, lock: u64, mode: LockMode, kind: LockKind) -> Ans {
            let req = LockRequest { id: lock, class: LockClass::Other, mode, kind, recursive: false, site: std::panic::Location::caller() };
            match self.st.attempt(tid, req, None) {
                Some(Outcome::Granted) => Ans::Granted,
                Some(_) => Ans::Failed,
                None => Ans::Blocked,
            }
        }

        pub fn release(&mut self, tid: usize, lock: u64, mode: LockMode) {
            self.st.release(tid, lock, LockClass::Other, mode);
        }

        /// let simulated time pass; returns the threads whose timed wait expired
        pub fn advance(&mut self, ns: u64) -> Vec<usize> {
            self.st.clock += ns;
            self.st.expire();
            let mut out = Vec::new();
            for t in 0..self.st.threads.len() {
                if let Status::Blocked(p) = self.st.threads[t].status {
                    if p.expired {
                        if p.has_bit {
                            if let Some(l) = self.st.locks.get_mut(&p.req.id) {
                                if l.writer == Some(t) && !l.writer_granted {
                                    l.writer = None;
                                }
                            }
                        }
                        self.st.threads[t].status = Status::AtPoint(None);
                        out.push(t);
                    }
                }
            }
            out
        }

        /// is the blocked thread grantable now? (grants it if so)
        pub fn wake(&mut self, tid: usize) -> bool {
            if let Status::Blocked(p) = self.st.threads[tid].status {
                if self.st.grantable_now(tid, &p) {
                    if p.req.mode == LockMode::Write && !p.has_bit {
                        return matches!(self.st.attempt(tid, p.req, Some(p)), Some(Outcome::Granted));
                    }
                    self.st.do_grant(tid, &p.req);
                    self.st.threads[tid].status = Status::AtPoint(None);
                    return true;
                }
            }
            false
        }
    }
}

impl SimHooks for Engine {
    fn acquire(&self, req: &LockRequest) -> Decision {
        let tid = TID.with(|t| t.get());
        if tid == NONE {
            return Decision::PassThrough;
        }
        match self.yield_point(tid, Status::AtPoint(Some(*req))) {
            Outcome::Granted => Decision::Granted,
            Outcome::Failed => Decision::Failed,
            Outcome::Abort => std::panic::resume_unwind(Box::new(SimAbort)),
        }
    }

    fn release(&self, id: u64, class: LockClass, mode: LockMode) {
        let tid = TID.with(|t| t.get());
        if tid == NONE {
            return;
        }
        let mut st = self.st();
        st.release(tid, id, class, mode);
    }

    fn mismatch(&self, req: &LockRequest) -> ! {
        eprintln!(
            "HARNESS ERROR: the real lock refused an acquisition that the lock model granted: {:?} (thread {:?})",
            req,
            current_tid()
        );
        std::process::exit(2);
    }
}
