//! Coordinator / worker / replay for the single-client properties, known-findings handling, evidence.

use crate::engine::Ghost;
use crate::hist::{run_history, HistCfg, HistResult, PropSel, Violation};
use crate::ops::Op;
use crate::profiles::hist_cfg;
use crate::rng::{derive, hash_str};
use serde::{Deserialize, Serialize};
use serde_json::{json, Value};
use std::collections::{BTreeMap, BTreeSet};
use std::io::Write;
use std::path::{Path, PathBuf};
use std::process::{Command, Stdio};
use std::time::Instant;

pub const DEFAULT_SEED: u64 = 20_261_004;

pub fn verif_dir() -> PathBuf {
    std::env::var("VERIF_DIR").map(PathBuf::from).unwrap_or_else(|_| PathBuf::from("/verif"))
}

/// where evidence and replay files are written (the mutant self-test points this elsewhere)
pub fn out_dir() -> PathBuf {
    std::env::var("VERIF_OUT").map(PathBuf::from).unwrap_or_else(|_| verif_dir())
}

pub fn base_seed() -> u64 {
    std::env::var("VERIF_SEED").ok().and_then(|s| s.trim().parse::<u64>().ok()).unwrap_or(DEFAULT_SEED)
}

pub fn n_workers() -> usize {
    std::env::var("VERIF_WORKERS").ok().and_then(|s| s.parse().ok()).unwrap_or_else(|| std::thread::available_parallelism().map(|n| n.get()).unwrap_or(8).min(16))
}

#[derive(Serialize, Deserialize, Default, Clone, Debug)]
pub struct VRec {
    pub prop: String,
    pub sig: String,
    pub count: u64,
    pub first_seed: u64,
    pub detail: String,
    /// fault enumeration: the scripted case (operations, ghost positions) that showed it
    #[serde(default)]
    pub script: Option<(Vec<(u32, Op)>, Vec<(u32, u64)>)>,
}

#[derive(Serialize, Deserialize, Default, Clone, Debug)]
pub struct WorkerOut {
    pub runs: u64,
    pub fault_runs: u64,
    pub ops: u64,
    pub errs: u64,
    pub locked: u64,
    pub sim_ns: u64,
    pub steps: u64,
    pub acquisitions: u64,
    pub try_timed: u64,
    pub blocked: u64,
    pub switches: u64,
    pub stalls: u64,
    pub ghost_fired: u64,
    pub ghost_fired_timed: u64,
    pub ghost_fired_try: u64,
    pub timeouts: u64,
    pub timeouts_self: u64,
    pub try_failed: u64,
    pub clock_jumps: u64,
    pub reentrant_reads: u64,
    pub max_nesting: u64,
    pub max_nodes: u64,
    pub kinds: BTreeMap<String, u64>,
    pub err_kinds: BTreeMap<String, u64>,
    pub probes: BTreeMap<String, u64>,
    pub violations: BTreeMap<String, VRec>,
    pub hist_hashes: Vec<u64>,
    pub state_hashes: Vec<u64>,
    pub samples: Vec<Value>,
    pub wall_s: f64,
    pub extra: BTreeMap<String, u64>,
}

impl WorkerOut {
    pub fn merge(&mut self, o: WorkerOut) {
        self.runs += o.runs;
        self.fault_runs += o.fault_runs;
        self.ops += o.ops;
        self.errs += o.errs;
        self.locked += o.locked;
        self.sim_ns += o.sim_ns;
        self.steps += o.steps;
        self.acquisitions += o.acquisitions;
        self.try_timed += o.try_timed;
        self.blocked += o.blocked;
        self.switches += o.switches;
        self.stalls += o.stalls;
        self.ghost_fired += o.ghost_fired;
        self.ghost_fired_timed += o.ghost_fired_timed;
        self.ghost_fired_try += o.ghost_fired_try;
        self.timeouts += o.timeouts;
        self.timeouts_self += o.timeouts_self;
        self.try_failed += o.try_failed;
        self.clock_jumps += o.clock_jumps;
        self.reentrant_reads += o.reentrant_reads;
        self.max_nesting = self.max_nesting.max(o.max_nesting);
        self.max_nodes = self.max_nodes.max(o.max_nodes);
        for (k, v) in o.kinds {
            *self.kinds.entry(k).or_default() += v;
        }
        for (k, v) in o.err_kinds {
            *self.err_kinds.entry(k).or_default() += v;
        }
        for (k, v) in o.probes {
            *self.probes.entry(k).or_default() += v;
        }
        for (k, v) in o.extra {
            *self.extra.entry(k).or_default() += v;
        }
        for (k, v) in o.violations {
            match self.violations.get_mut(&k) {
                Some(e) => {
                    e.count += v.count;
                    if v.first_seed < e.first_seed {
                        e.first_seed = v.first_seed;
                        e.detail = v.detail;
                    }
                }
                None => {
                    self.violations.insert(k, v);
                }
            }
        }
        self.hist_hashes.extend(o.hist_hashes);
        self.state_hashes.extend(o.state_hashes);
        if self.samples.len() < 6 {
            self.samples.extend(o.samples.into_iter().take(2));
        }
        self.wall_s = self.wall_s.max(o.wall_s);
    }

    pub fn add_counters(&mut self, c: &crate::engine::Counters) {
        self.steps += c.steps;
        self.acquisitions += c.acquisitions;
        self.try_timed += c.try_timed;
        self.blocked += c.blocked;
        self.switches += c.switches;
        self.stalls += c.stalls;
        self.ghost_fired += c.ghost_fired;
        self.ghost_fired_timed += c.ghost_fired_timed;
        self.ghost_fired_try += c.ghost_fired_try;
        self.timeouts += c.timeouts;
        self.timeouts_self += c.timeouts_self;
        self.try_failed += c.try_failed;
        self.clock_jumps += c.clock_jumps;
        self.reentrant_reads += c.reentrant_reads;
        self.max_nesting = self.max_nesting.max(c.max_nesting);
    }

    pub fn add_violation(&mut self, v: &Violation, seed: u64) {
        let key = format!("{}|{}", v.prop, v.sig);
        let e = self.violations.entry(key).or_insert_with(|| VRec {
            prop: v.prop.clone(),
            sig: v.sig.clone(),
            count: 0,
            first_seed: seed,
            detail: v.detail.clone(),
            script: None,
        });
        e.count += 1;
    }

    pub fn add_scripted_violation(&mut self, v: &Violation, seed: u64, ops: &[(u32, Op)], ghosts: &[(u32, u64)]) {
        let key = format!("{}|{}", v.prop, v.sig);
        let is_new = !self.violations.contains_key(&key);
        self.add_violation(v, seed);
        if is_new {
            self.violations.get_mut(&key).unwrap().script = Some((ops.to_vec(), ghosts.to_vec()));
        }
    }
}

pub fn run_seed_of(base: u64, prop: &str, index: u64) -> u64 {
    derive(base, &[hash_str(prop), index])
}

pub fn runs_for(prop: &str, thorough: bool) -> u64 {
    if let Ok(v) = std::env::var("VERIF_RUNS") {
        if let Ok(n) = v.parse() {
            return n;
        }
    }
    let quick = match prop {
        "C10" => 110_000,
        "C11" => 56_000,
        "C12" => 240_000,
        _ => 240_000,
    };
    if thorough { quick * 12 } else { quick }
}

fn hist_hash(r: &HistResult) -> u64 {
    let mut h = 0xABCDu64;
    for o in &r.ops {
        h = h.rotate_left(7) ^ hash_str(&o.ret) ^ hash_str(&o.op.as_ref().map(|x| x.brief()).unwrap_or_default());
        h = h.wrapping_mul(0x0000_0100_0000_01B3);
    }
    h
}

/// worker for the history-based properties: runs index, index + stride, ...
pub fn hist_worker(prop: &str, thorough: bool, base: u64, idx: u64, stride: u64, total: u64, progress: &Path) -> WorkerOut {
    let mut out = WorkerOut::default();
    let t0 = Instant::now();
    let mut i = idx;
    while i < total {
        let seed = run_seed_of(base, prop, i);
        let _ = std::fs::write(progress, format!("{seed} {i}"));
        let cfg = hist_cfg(prop, seed, thorough);
        let faulty = !matches!(cfg.ghost, Ghost::Off) || cfg.profile.io_fault_permille > 0;
        let r = run_history(&cfg);
        out.runs += 1;
        if faulty {
            out.fault_runs += 1;
        }
        out.ops += r.ops.len() as u64;
        out.errs += r.errs;
        out.locked += r.locked;
        out.sim_ns += r.sim_ns;
        out.add_counters(&r.counters);
        out.max_nodes = out.max_nodes.max(r.max_nodes_seen as u64);
        for (k, v) in &r.kinds {
            *out.kinds.entry(k.clone()).or_default() += v;
        }
        for (k, v) in &r.err_kinds {
            *out.err_kinds.entry(k.clone()).or_default() += v;
        }
        for (k, v) in &r.probes {
            *out.probes.entry(k.clone()).or_default() += v;
        }
        for v in &r.violations {
            out.add_violation(v, seed);
        }
        for (e, n) in &r.edges {
            // lock-order edges (C15 harvest): recorded like findings of the pseudo property C15E, with the run that showed them
            let v = Violation { prop: "C15E".into(), sig: e.clone(), detail: String::new(), at: 0 };
            out.add_violation(&v, seed);
            if let Some(rec) = out.violations.get_mut(&format!("C15E|{e}")) {
                rec.count += n - 1;
            }
        }
        let ok_ops = r.ops.len() as u64 - r.errs.min(r.ops.len() as u64);
        if ok_ops >= 5 && r.state_hashes.len() >= 3 {
            out.hist_hashes.push(hist_hash(&r));
        }
        if out.state_hashes.len() < 200_000 {
            out.state_hashes.extend(r.state_hashes.iter().copied());
        }
        if prop == "C11" && !faulty && r.violations.is_empty() && r.ops.len() >= 3 && (i / stride) % 3 == 0 {
            enumerate_faults(&r, seed, thorough, &mut out);
        }
        if out.samples.len() < 2 && r.ops.len() >= 6 {
            out.samples.push(json!({
                "run_seed": seed,
                "ghost": format!("{:?}", cfg.ghost),
                "ghost_faults_fired": r.ghost_fired_at.len(),
                "ops": r.ops.iter().take(40).map(|o| format!("{} -> {}", o.op.as_ref().map(|x| x.brief()).unwrap_or_default(), o.ret.chars().take(80).collect::<String>())).collect::<Vec<_>>(),
            }));
        }
        i += stride;
    }
    let fsc = crate::simfs::take_counters();
    for (k, v) in [
        ("io-reads", fsc.reads),
        ("io-reads-of-missing-files", fsc.reads_missing),
        ("io-read-faults-fired", fsc.read_faults),
        ("io-writes", fsc.writes),
        ("io-write-faults-fired-nothing-written", fsc.write_faults_clean),
        ("io-write-faults-fired-torn-file", fsc.write_faults_torn),
        ("io-bytes-written", fsc.bytes_written),
    ] {
        if v > 0 {
            *out.probes.entry(k.to_string()).or_default() += v;
        }
    }
    out.wall_s = t0.elapsed().as_secs_f64();
    out
}

/// C11: for one fault-free history, every single ghost-fault position of every call (up to 64 per call), and torn /
/// corrupted variants of every load at the token boundaries of its buffer
fn enumerate_faults(r: &HistResult, seed: u64, thorough: bool, out: &mut WorkerOut) {
    let ops: Vec<(u32, Op)> = r.ops.iter().filter_map(|o| o.op.clone().map(|op| (o.label, op))).collect();
    let mut cases = 0u64;
    let mut fired = 0u64;
    let mut turned_into_error = 0u64;
    let mut load_cases = 0u64;
    for (i, rec) in r.ops.iter().enumerate() {
        let n = rec.try_timed.min(64);
        for k in 0..n {
            let mut cfg = scripted_cfg("C11", seed, thorough, ops[..=i].to_vec(), &[(rec.label, k)], false);
            cfg.check_from = i;
            let rr = run_history(&cfg);
            cases += 1;
            fired += rr.ghost_fired_at.len() as u64;
            if rr.ops.last().map(|o| o.ret.starts_with("Err")).unwrap_or(false) && !rec.ret.starts_with("Err") {
                turned_into_error += 1;
            }
            for v in &rr.violations {
                out.add_scripted_violation(v, seed, &ops[..=i], &[(rec.label, k)]);
            }
        }
        // load faults: the same load with a torn or corrupted buffer
        if let Some(op) = &rec.op {
            if op.k == crate::ops::K::MLoadBuffer && rec.ret.starts_with("Ok") {
                let buf = op.buffer();
                let mut cuts: Vec<usize> = Vec::new();
                for (p, b) in buf.iter().enumerate() {
                    if *b == b'<' || *b == b'>' {
                        cuts.push(p);
                        cuts.push(p + 1);
                    }
                }
                cuts.dedup();
                let step = (cuts.len() / if thorough { 120 } else { 40 }).max(1);
                for (ci, cut) in cuts.iter().enumerate().filter(|(ci, _)| ci % step == 0) {
                    let mut variant = op.clone();
                    let mut b2 = buf.clone();
                    if ci % 2 == 0 {
                        b2.truncate(*cut);
                    } else if *cut < b2.len() {
                        b2[*cut] = [b'<', b'>', b'&', b'"', b'X', 0xff, b'?', b' ', b'=', b'!'][(ci / 2) % 10];
                    }
                    variant.text.clear();
                    variant.hex.clear();
                    let variant = variant.bytes(&b2);
                    let mut v_ops = ops[..i].to_vec();
                    v_ops.push((rec.label, variant));
                    let mut cfg = scripted_cfg("C11", seed, thorough, v_ops.clone(), &[], false);
                    cfg.check_from = i;
                    let rr = run_history(&cfg);
                    load_cases += 1;
                    for v in &rr.violations {
                        out.add_scripted_violation(v, seed, &v_ops, &[]);
                    }
                }
            }
        }
    }
    // disk faults: every file write of every successful write() fails once (nothing written / torn), the read of every
    // successful load_file fails once
    let mut disk_cases = 0u64;
    for (i, rec) in r.ops.iter().enumerate() {
        let Some(op) = &rec.op else { continue };
        if !(rec.ret.starts_with("Ok") && matches!(op.k, crate::ops::K::MWrite | crate::ops::K::MLoadFile)) {
            continue;
        }
        let variants: Vec<usize> = if op.k == crate::ops::K::MWrite {
            // at most 4 files per model in these workloads; a k beyond the number of writes simply does not fire
            (1..=4usize).flat_map(|k| [k, k + 100 * (17 + 19 * k)]).collect()
        } else {
            vec![op.n | 2]
        };
        for n in variants {
            let mut variant = op.clone();
            variant.n = n;
            let mut v_ops = ops[..i].to_vec();
            v_ops.push((rec.label, variant));
            let mut cfg = scripted_cfg("C11", seed, thorough, v_ops.clone(), &[], false);
            cfg.check_from = i;
            let rr = run_history(&cfg);
            disk_cases += 1;
            for v in &rr.violations {
                out.add_scripted_violation(v, seed, &v_ops, &[]);
            }
        }
    }
    *out.extra.entry("disk_fault_variants".into()).or_default() += disk_cases;
    *out.extra.entry("ghost_positions_enumerated".into()).or_default() += cases;
    *out.extra.entry("ghost_positions_fired".into()).or_default() += fired;
    *out.extra.entry("calls_turned_into_error_by_a_ghost".into()).or_default() += turned_into_error;
    *out.extra.entry("torn_or_corrupt_load_variants".into()).or_default() += load_cases;
    *out.extra.entry("histories_enumerated".into()).or_default() += 1;
}

// ---------------- known findings ----------------

#[derive(Clone, Debug)]
pub struct Known {
    pub prop: String,
    pub sig: String,
    pub what: String,
}

pub fn load_known() -> Vec<Known> {
    let p = verif_dir().join("KNOWN_FINDINGS.txt");
    let mut v = Vec::new();
    if let Ok(text) = std::fs::read_to_string(p) {
        for line in text.lines() {
            let line = line.trim();
            if let Some(rest) = line.strip_prefix("open:") {
                let rest = rest.trim();
                // open: property=C12 sig=<sig> :: <what fails>
                let (head, what) = rest.split_once(" :: ").unwrap_or((rest, ""));
                if let Some((p, s)) = head.split_once(" sig=") {
                    let prop = p.trim().trim_start_matches("property=").to_string();
                    v.push(Known { prop, sig: s.trim().to_string(), what: what.trim().to_string() });
                }
            }
        }
    }
    v
}

/// the listed findings as (property, signature pattern), loaded once per process
pub fn known_patterns() -> std::sync::Arc<Vec<(String, String)>> {
    static CACHE: std::sync::OnceLock<std::sync::Arc<Vec<(String, String)>>> = std::sync::OnceLock::new();
    CACHE.get_or_init(|| std::sync::Arc::new(load_known().into_iter().map(|k| (k.prop, k.sig)).collect())).clone()
}

/// simple glob: `*` matches any (possibly empty) run of characters
pub fn glob_match(pat: &str, text: &str) -> bool {
    let parts: Vec<&str> = pat.split('*').collect();
    if parts.len() == 1 {
        return pat == text;
    }
    let mut pos = 0;
    for (i, part) in parts.iter().enumerate() {
        if i == 0 {
            if !text.starts_with(part) {
                return false;
            }
            pos = part.len();
        } else if i == parts.len() - 1 {
            return text.len() >= pos + part.len() && text[pos..].ends_with(part);
        } else {
            match text[pos..].find(part) {
                Some(p) => pos += p + part.len(),
                None => return false,
            }
        }
    }
    true
}

/// a known signature may contain `*` where the listed finding's context varies (the entry says how)
pub fn is_known<'a>(known: &'a [Known], prop: &str, sig: &str) -> Option<&'a Known> {
    if let Some(k) = known.iter().find(|k| k.prop == prop && glob_match(&k.sig, sig)) {
        return Some(k);
    }
    // C16 `state|[after-timeout:]A+B`: an entry `state|any:<Kind>` lists a kind of call that is not atomic at all;
    // every final-state mismatch it takes part in is that finding
    if prop == "C16" {
        if let Some(rest) = sig.strip_prefix("state|") {
            // state|[after-timeout:]A+B|differs:<aspects>  is covered by an entry  state|any:<Kind>|differs:<pattern>
            let (kinds, differs) = rest.split_once("|differs:").unwrap_or((rest, ""));
            let kinds = kinds.strip_prefix("after-timeout:").unwrap_or(kinds);
            for kind in kinds.split('+') {
                let prefix = format!("state|any:{kind}|differs:");
                let fits = |pat: &str| -> bool {
                    // `{a,b,c}`: every differing aspect is one of these; otherwise a glob
                    match pat.strip_prefix('{').and_then(|p| p.strip_suffix('}')) {
                        Some(list) => {
                            let allowed: Vec<&str> = list.split(',').collect();
                            !differs.is_empty() && differs.split('+').all(|a| allowed.contains(&a))
                        }
                        None => glob_match(pat, differs),
                    }
                };
                if let Some(k) = known.iter().find(|k| k.prop == "C16" && k.sig.starts_with(&prefix) && fits(&k.sig[prefix.len()..])) {
                    return Some(k);
                }
            }
        }
    }
    None
}

// ---------------- replay files and minimisation ----------------

#[derive(Serialize, Deserialize, Clone, Debug)]
pub struct HistReplay {
    pub kind: String,
    pub property: String,
    pub sig: String,
    pub detail: String,
    pub run_seed: u64,
    pub thorough: bool,
    pub ops: Vec<(u32, Op)>,
    pub ghost_at: Vec<(u32, u64)>,
    pub log_hash: u64,
    pub trace: Vec<String>,
}

pub fn scripted_cfg(prop: &str, run_seed: u64, thorough: bool, ops: Vec<(u32, Op)>, ghost_at: &[(u32, u64)], keep_trace: bool) -> HistCfg {
    let mut cfg = hist_cfg(prop, run_seed, thorough);
    cfg.scripted = Some(ops);
    cfg.ghost = if ghost_at.is_empty() { Ghost::Off } else { Ghost::At(ghost_at.to_vec()) };
    cfg.keep_trace = keep_trace;
    cfg.props = PropSel::only(prop);
    cfg
}

fn reproduces(prop: &str, sig: &str, run_seed: u64, thorough: bool, ops: &[(u32, Op)], ghost_at: &[(u32, u64)]) -> Option<HistResult> {
    let cfg = scripted_cfg(prop, run_seed, thorough, ops.to_vec(), ghost_at, false);
    let r = run_history(&cfg);
    if r.violations.iter().any(|v| v.prop == prop && v.sig == sig) { Some(r) } else { None }
}

pub fn minimise_hist(prop: &str, sig: &str, run_seed: u64, thorough: bool, mut ops: Vec<(u32, Op)>, mut ghosts: Vec<(u32, u64)>) -> (Vec<(u32, Op)>, Vec<(u32, u64)>) {
    // cut everything after the violating operation first
    let mut tests = 0;
    let mut chunk = (ops.len() / 2).max(1);
    while chunk >= 1 && tests < 3000 {
        let mut i = 0;
        let mut removed_any = false;
        while i < ops.len() && tests < 3000 {
            let end = (i + chunk).min(ops.len());
            let mut cand = ops.clone();
            cand.drain(i..end);
            tests += 1;
            if !cand.is_empty() && reproduces(prop, sig, run_seed, thorough, &cand, &ghosts).is_some() {
                ops = cand;
                removed_any = true;
            } else {
                i = end;
            }
        }
        if chunk == 1 && !removed_any {
            break;
        }
        chunk = if chunk == 1 { 1 } else { chunk / 2 };
    }
    let mut gi = 0;
    while gi < ghosts.len() {
        let mut cand = ghosts.clone();
        cand.remove(gi);
        if reproduces(prop, sig, run_seed, thorough, &ops, &cand).is_some() {
            ghosts = cand;
        } else {
            gi += 1;
        }
    }
    (ops, ghosts)
}

pub fn fmt_trace(trace: &[crate::engine::Ev]) -> Vec<String> {
    trace
        .iter()
        .map(|e| {
            format!(
                "step {} t{} op#{} {} lock#{} {:?} {:?} {:?} {} clock={}ns",
                e.step,
                e.tid,
                e.op,
                e.what,
                e.lock,
                e.class,
                e.mode,
                e.kind,
                e.site.map(|s| s.to_string()).unwrap_or_default(),
                e.clock
            )
        })
        .collect()
}

/// produce a minimised, verified replay file for a violation found at `run_seed`
pub fn make_hist_replay(prop: &str, sig: &str, run_seed: u64, thorough: bool, script: Option<&(Vec<(u32, Op)>, Vec<(u32, u64)>)>) -> Option<PathBuf> {
    // regenerate the run with its generated operations (or take the scripted case of a fault enumeration)
    let (ops, ghosts, v) = match script {
        Some((ops, ghosts)) => {
            let r = reproduces(prop, sig, run_seed, thorough, ops, ghosts)?;
            let v = r.violations.iter().find(|v| v.prop == prop && v.sig == sig)?.clone();
            (ops.clone(), ghosts.clone(), v)
        }
        None => {
            let mut cfg = hist_cfg(prop, run_seed, thorough);
            cfg.props = PropSel::only(prop);
            if prop == "C15" {
                cfg.props.c15 = true;
            }
            let r = run_history(&cfg);
            let v = r.violations.iter().find(|v| v.prop == prop && v.sig == sig)?.clone();
            let ops: Vec<(u32, Op)> = r.ops.iter().filter_map(|o| o.op.clone().map(|op| (o.label, op))).collect();
            (ops, r.ghost_fired_at.clone(), v)
        }
    };
    // the scripted form must reproduce it; otherwise keep nothing (harness problem)
    let (ops, ghosts) = if reproduces(prop, sig, run_seed, thorough, &ops, &ghosts).is_some() {
        minimise_hist(prop, sig, run_seed, thorough, ops, ghosts)
    } else {
        eprintln!("HARNESS: violation {prop} {sig} at seed {run_seed} does not reproduce from its recorded operations");
        return None;
    };
    let cfgm = scripted_cfg(prop, run_seed, thorough, ops.clone(), &ghosts, true);
    let r1 = run_history(&cfgm);
    let r2 = run_history(&cfgm);
    if r1.log_hash != r2.log_hash {
        eprintln!("HARNESS: replay of {prop} {sig} is not deterministic");
        return None;
    }
    let detail = r1.violations.iter().find(|x| x.prop == prop && x.sig == sig).map(|x| x.detail.clone()).unwrap_or(v.detail.clone());
    let rep = HistReplay {
        kind: "hist".into(),
        property: prop.into(),
        sig: sig.into(),
        detail,
        run_seed,
        thorough,
        ops,
        ghost_at: ghosts,
        log_hash: r1.log_hash,
        trace: fmt_trace(&r1.trace).into_iter().rev().take(400).rev().collect(),
    };
    let dir = out_dir().join("replays").join(prop);
    let _ = std::fs::create_dir_all(&dir);
    let path = dir.join(format!("{:016x}.json", hash_str(sig)));
    std::fs::write(&path, serde_json::to_string_pretty(&rep).ok()?).ok()?;
    Some(path)
}

/// replay a history file; returns the process exit code
pub fn replay_hist(rep: &HistReplay) -> i32 {
    let cfg = scripted_cfg(&rep.property, rep.run_seed, rep.thorough, rep.ops.clone(), &rep.ghost_at, true);
    let r = run_history(&cfg);
    println!("replaying {} operations, {} ghost faults", rep.ops.len(), rep.ghost_at.len());
    for o in &r.ops {
        println!("  #{} {}  ->  {}", o.label, o.op.as_ref().map(|x| x.brief()).unwrap_or_default(), o.ret.chars().take(160).collect::<String>());
    }
    for v in &r.violations {
        println!("  !! {} {} :: {}", v.prop, v.sig, v.detail);
    }
    let hit = r.violations.iter().any(|v| v.prop == rep.property && v.sig == rep.sig);
    if hit && r.log_hash == rep.log_hash {
        println!("VIOLATION property={} reproduced exactly (log hash {:016x})", rep.property, r.log_hash);
        1
    } else if hit {
        println!("violation reproduced, but the event log differs from the recorded one ({:016x} vs {:016x})", r.log_hash, rep.log_hash);
        1
    } else {
        println!("the recorded violation did not occur");
        0
    }
}

// ---------------- coordinator ----------------

pub struct CheckSpec<'a> {
    pub prop: &'a str,
    pub thorough: bool,
    pub worker_cmd: &'a str,
    pub total: u64,
    pub level: &'a str,
    pub rule: &'a str,
    pub assumptions: Vec<String>,
}

pub fn spawn_workers(spec: &CheckSpec, base: u64) -> (WorkerOut, Vec<(u64, String)>) {
    let w = n_workers() as u64;
    let exe = std::env::current_exe().expect("current exe");
    let tmp = std::env::temp_dir().join(format!("verif-sim-{}", std::process::id()));
    let _ = std::fs::create_dir_all(&tmp);
    let mut children = Vec::new();
    for idx in 0..w {
        let progress = tmp.join(format!("progress-{idx}"));
        let child = Command::new(&exe)
            .arg(spec.worker_cmd)
            .arg(spec.prop)
            .arg(if spec.thorough { "thorough" } else { "quick" })
            .arg(base.to_string())
            .arg(idx.to_string())
            .arg(w.to_string())
            .arg(spec.total.to_string())
            .arg(&progress)
            .env("VERIF_QUIET_PANICS", "1")
            .stdout(Stdio::piped())
            .stderr(Stdio::piped())
            .spawn()
            .expect("spawn worker");
        children.push((idx, child, progress));
    }
    let mut total = WorkerOut::default();
    let mut crashes = Vec::new();
    for (idx, child, progress) in children {
        let out = child.wait_with_output().expect("wait worker");
        let text = String::from_utf8_lossy(&out.stdout);
        let parsed: Option<WorkerOut> = text.lines().rev().find(|l| l.starts_with('{')).and_then(|l| serde_json::from_str(l).ok());
        match (out.status.success(), parsed) {
            (true, Some(wo)) => total.merge(wo),
            _ => {
                let prog = std::fs::read_to_string(&progress).unwrap_or_default();
                let seed = prog.split_whitespace().next().and_then(|s| s.parse().ok()).unwrap_or(0);
                let err = String::from_utf8_lossy(&out.stderr);
                crashes.push((seed, format!("worker {idx} ended with {:?} at run seed {seed}: {}", out.status, err.lines().rev().take(5).collect::<Vec<_>>().join(" | "))));
            }
        }
    }
    let _ = std::fs::remove_dir_all(&tmp);
    (total, crashes)
}

pub fn write_evidence(spec: &CheckSpec, base: u64, total: &WorkerOut, wall_s: f64, n_violations: usize, known_seen: &[String], extra: Value) {
    let distinct_hist: BTreeSet<u64> = total.hist_hashes.iter().copied().collect();
    let distinct_states: BTreeSet<u64> = total.state_hashes.iter().copied().collect();
    let runs_per_hour = if wall_s > 0.0 { total.runs as f64 / wall_s * 3600.0 } else { 0.0 };
    let mut coverage = json!({
        "evaluations": total.runs,
        "distinct_nontrivial": distinct_hist.len(),
        "rule": spec.rule,
        "samples": total.samples,
        "runs_with_fault_injection": total.fault_runs,
        "runs_fault_free": total.runs - total.fault_runs,
        "operations_executed": total.ops,
        "operations_returning_error": total.errs,
        "operations_returning_parent_locked": total.locked,
        "operations_per_kind": total.kinds,
        "errors_per_kind_and_variant": total.err_kinds.len(),
        "distinct_states_reached": distinct_states.len(),
        "max_model_size_elements": total.max_nodes,
        "simulated_time_s": total.sim_ns as f64 / 1e9,
        "scheduling_steps": total.steps,
        "lock_acquisitions": total.acquisitions,
        "try_or_timed_acquisitions": total.try_timed,
        "thread_switches": total.switches,
        "faults_fired": {
            "ghost_total": total.ghost_fired,
            "ghost_on_timed_acquisition": total.ghost_fired_timed,
            "ghost_on_try_acquisition": total.ghost_fired_try,
            "stalls": total.stalls,
            "disk_read_errors": total.probes.get("io-read-faults-fired").copied().unwrap_or(0),
            "disk_write_errors_nothing_written": total.probes.get("io-write-faults-fired-nothing-written").copied().unwrap_or(0),
            "disk_write_errors_torn_file": total.probes.get("io-write-faults-fired-torn-file").copied().unwrap_or(0),
        },
        "probes": {
            "timed_waits_expired": total.timeouts,
            "timed_waits_expired_on_own_lock": total.timeouts_self,
            "try_locks_failed": total.try_failed,
            "clock_jumps_to_deadline": total.clock_jumps,
            "reentrant_blocking_reads_seen": total.reentrant_reads,
            "max_lock_nesting_depth": total.max_nesting,
            "other": total.probes,
        },
        "runs_per_hour": runs_per_hour as u64,
        "seeds_per_hour": runs_per_hour as u64,
        "workers": n_workers(),
        "known_findings_seen": known_seen,
        "components": {
            "autosar-data, autosar-data-specification": "real code (feature verif swaps the RwLock and HashSet type aliases only)",
            "parking_lot::RwLock word and guards": "real (taken with try_* after the logical grant)",
            "blocking / wake-up policy, time-outs": "model of parking_lot 0.12.5 RawRwLock",
            "clock": "simulated",
            "threads": "real OS threads, one runnable at a time (baton)",
            "HashSet<WeakArxmlFile>": "ordered stand-in (DetSet)",
            "file system": "simulated disk behind the fs seam of load_file / write (whole-file reads and writes by path, injected read errors, failed and torn writes) for C10 C11 C12; not exercised by the other checks (buffers)",
        },
        "exhaustive": false,
    });
    if let (Some(c), Some(e)) = (coverage.as_object_mut(), extra.as_object()) {
        for (k, v) in e {
            c.insert(k.clone(), v.clone());
        }
    }
    let ev = json!({
        "property_id": spec.prop,
        "tier": if spec.thorough { "thorough" } else { "quick" },
        "seed": base,
        "level": spec.level,
        "coverage": coverage,
        "assumptions": spec.assumptions,
        "wall_s": wall_s,
        "violations": n_violations,
    });
    let dir = out_dir().join("evidence");
    let _ = std::fs::create_dir_all(&dir);
    let path = dir.join(format!("{}.json", spec.prop));
    let mut f = std::fs::File::create(&path).expect("evidence file");
    let _ = f.write_all(serde_json::to_string_pretty(&ev).unwrap().as_bytes());
}

/// classify the violations of a finished batch; returns (exit code, known lines)
pub fn classify(prop: &str, total: &WorkerOut, make_replay: &dyn Fn(&VRec) -> Option<PathBuf>) -> (i32, Vec<String>, usize) {
    let known = load_known();
    let mut known_seen = Vec::new();
    let mut exit = 0;
    let mut n_viol = 0;
    let mut printed: BTreeSet<String> = BTreeSet::new();
    for v in total.violations.values() {
        if v.prop != prop {
            continue;
        }
        // C16 `return|a+b`: several calls with unexplained results; known if each of them is a listed finding
        let parts_known = v.prop == "C16" && v.sig.starts_with("return|") && v.sig.contains('+') && v.sig["return|".len()..].split('+').all(|p| is_known(&known, "C16", &format!("return|{p}")).is_some());
        if parts_known {
            for p in v.sig["return|".len()..].split('+') {
                if let Some(k) = is_known(&known, "C16", &format!("return|{p}")) {
                    let line = format!("KNOWN-FINDING: property={} sig={} :: {}", v.prop, k.sig, k.what);
                    if printed.insert(line.clone()) {
                        println!("{line}");
                    }
                }
            }
            known_seen.push(format!("{} (seen {} times)", v.sig, v.count));
            continue;
        }
        if let Some(k) = is_known(&known, &v.prop, &v.sig) {
            let line = format!("KNOWN-FINDING: property={} sig={} :: {}", v.prop, k.sig, k.what);
            if printed.insert(line.clone()) {
                println!("{line}");
            }
            known_seen.push(format!("{} (seen {} times, e.g. run seed {})", k.sig, v.count, v.first_seed));
        } else {
            n_viol += 1;
            match make_replay(v) {
                Some(path) => {
                    println!("VIOLATION property={} replay={}", v.prop, path.display());
                    println!("  signature: {}", v.sig);
                    println!("  first seen at run seed {} ({} occurrences): {}", v.first_seed, v.count, v.detail);
                    exit = 1;
                }
                None => {
                    eprintln!("HARNESS ERROR: could not build a replay for {} {} (run seed {})", v.prop, v.sig, v.first_seed);
                    if exit == 0 {
                        exit = 2;
                    }
                }
            }
        }
    }
    (exit, known_seen, n_viol)
}

pub const DEEP_OPS: &[&str] = &["element-serialize", "sort", "duplicate", "copy", "remove", "dfs", "cmp", "check-compat", "path", "remove-file"];

/// run one recursive call on a chain of `depth` nested elements in a child process; true = the child finished
pub fn deep_case(depth: usize, op: &str) -> (bool, String) {
    let exe = std::env::current_exe().expect("current exe");
    match Command::new(exe).arg("deep-worker").arg(depth.to_string()).arg(op).env("VERIF_QUIET_PANICS", "1").output() {
        Ok(out) => {
            let done = out.status.success() && String::from_utf8_lossy(&out.stdout).contains("done");
            (done, format!("{:?} {}", out.status, String::from_utf8_lossy(&out.stderr).lines().last().unwrap_or("").chars().take(120).collect::<String>()))
        }
        Err(e) => (false, format!("spawn failed: {e}")),
    }
}

/// C12, deep nesting: every recursive call on element chains of increasing depth, each in its own process
fn deep_phase(thorough: bool, total: &mut WorkerOut) {
    let depths: &[usize] = if thorough { &[1000, 3000, 12000, 25000] } else { &[1000, 3000, 12000] };
    let mut handles = Vec::new();
    for d in depths {
        for op in DEEP_OPS {
            let (d, op) = (*d, op.to_string());
            handles.push(std::thread::spawn(move || (d, op.clone(), deep_case(d, &op))));
        }
    }
    for h in handles {
        if let Ok((d, op, (done, msg))) = h.join() {
            *total.extra.entry("deep_nesting_cases".into()).or_default() += 1;
            if !done {
                *total.extra.entry("deep_nesting_cases_crashed".into()).or_default() += 1;
                let v = Violation { prop: "C12".into(), sig: format!("deep|{op}|depth={d}|crash"), detail: format!("{op} on a chain of {d} nested elements (built through the API) ends the process: {msg}"), at: 0 };
                total.add_violation(&v, d as u64);
            }
        }
    }
}

#[derive(Serialize, Deserialize, Clone, Debug)]
pub struct DeepReplay {
    pub kind: String,
    pub property: String,
    pub sig: String,
    pub depth: usize,
    pub op: String,
}

pub fn replay_deep(rep: &DeepReplay) -> i32 {
    let (done, msg) = deep_case(rep.depth, &rep.op);
    println!("{} on a chain of {} nested elements: {}", rep.op, rep.depth, if done { "finished".to_string() } else { format!("process ended: {msg}") });
    if done {
        0
    } else {
        println!("VIOLATION property=C12 reproduced exactly");
        1
    }
}

pub fn check_hist(prop: &str, thorough: bool) -> i32 {
    let base = base_seed();
    println!("VERIF_SEED={base} property={prop} tier={}", if thorough { "thorough" } else { "quick" });
    let t0 = Instant::now();
    let _ = std::fs::remove_dir_all(out_dir().join("replays").join(prop));
    let spec = CheckSpec {
        prop,
        thorough,
        worker_cmd: "hist-worker",
        total: runs_for(prop, thorough),
        level: if prop == "C11" { "fault_enumeration" } else { "exploration" },
        rule: "one evaluation = one seeded single-client history of public API calls generated online against the real model (about half of the runs with ghost lock faults), checked after every call; a history counts as distinct and non-trivial if its sequence of (call, canonical result) is new, it has >= 5 successful calls and reaches >= 3 distinct model states",
        assumptions: vec![
            "lock-only neighbours (ghosts) never change state and hold only locks that existed before the current call started".into(),
            "the lock model follows parking_lot 0.12.5 RawRwLock; the real lock is still taken after every logical grant and a disagreement ends the check with exit 2".into(),
            "sampling, not enumeration: a clean batch is evidence, not proof".into(),
            "signatures of known findings were saturated over many base seeds; a pre-existing defect first seen under a new seed would be reported as a violation".into(),
        ],
    };
    let (mut total, crashes) = spawn_workers(&spec, base);
    if prop == "C12" && std::env::var("VERIF_NO_DEEP").is_err() {
        deep_phase(thorough, &mut total);
    }
    let mut exit = 0;
    for (seed, msg) in &crashes {
        eprintln!("worker crash: {msg}");
        if prop == "C12" {
            // a crash (stack overflow, abort) of the code under test in single-threaded use is a C12 violation
            println!("VIOLATION property=C12 replay=seed:{seed}");
            exit = 1;
        } else {
            exit = 2;
        }
    }
    let (e2, known_seen, n_viol) = classify(prop, &total, &|v| {
        if let Some(rest) = v.sig.strip_prefix("deep|") {
            // deep|<op>|depth=<d>|crash
            let parts: Vec<&str> = rest.split('|').collect();
            let depth = parts.get(1).and_then(|p| p.strip_prefix("depth=")).and_then(|d| d.parse().ok()).unwrap_or(0);
            let rep = DeepReplay { kind: "deep".into(), property: "C12".into(), sig: v.sig.clone(), depth, op: parts.first().unwrap_or(&"").to_string() };
            let dir = out_dir().join("replays").join("C12");
            let _ = std::fs::create_dir_all(&dir);
            let path = dir.join(format!("{:016x}.json", hash_str(&v.sig)));
            std::fs::write(&path, serde_json::to_string_pretty(&rep).ok()?).ok()?;
            return Some(path);
        }
        make_hist_replay(prop, &v.sig, v.first_seed, thorough, v.script.as_ref())
    });
    if e2 != 0 && exit == 0 {
        exit = e2;
    }
    if e2 == 1 {
        exit = 1;
    }
    let wall = t0.elapsed().as_secs_f64();
    let extra = if total.extra.is_empty() { json!({}) } else { json!({ "additional_counters": total.extra }) };
    write_evidence(&spec, base, &total, wall, n_viol, &known_seen, extra);
    println!(
        "{prop}: {} runs ({} with faults), {} operations, {} ghost faults fired, {} violations, {} known findings seen, {:.1}s",
        total.runs,
        total.fault_runs,
        total.ops,
        total.ghost_fired,
        n_viol,
        known_seen.len(),
        wall
    );
    exit
}
