//! Small deterministic PRNG (xoshiro256** seeded through splitmix64). One seed = one run.

#[derive(Clone, Debug)]
pub struct Rng {
    s: [u64; 4],
}

pub fn splitmix(x: &mut u64) -> u64 {
    *x = x.wrapping_add(0x9E37_79B9_7F4A_7C15);
    let mut z = *x;
    z = (z ^ (z >> 30)).wrapping_mul(0xBF58_476D_1CE4_E5B9);
    z = (z ^ (z >> 27)).wrapping_mul(0x94D0_49BB_1331_11EB);
    z ^ (z >> 31)
}

/// derive a sub-seed from a base seed and a list of labels
pub fn derive(base: u64, labels: &[u64]) -> u64 {
    let mut x = base ^ 0x5851_F42D_4C95_7F2D;
    let mut out = splitmix(&mut x);
    for l in labels {
        x ^= l.wrapping_mul(0xD6E8_FEB8_6659_FD93);
        out ^= splitmix(&mut x);
    }
    out
}

pub fn hash_str(s: &str) -> u64 {
    let mut h: u64 = 0xcbf2_9ce4_8422_2325;
    for b in s.as_bytes() {
        h ^= *b as u64;
        h = h.wrapping_mul(0x0000_0100_0000_01B3);
    }
    h
}

impl Rng {
    pub fn new(seed: u64) -> Self {
        let mut x = seed;
        let s = [splitmix(&mut x), splitmix(&mut x), splitmix(&mut x), splitmix(&mut x)];
        Self { s }
    }

    pub fn next_u64(&mut self) -> u64 {
        let result = self.s[1].wrapping_mul(5).rotate_left(7).wrapping_mul(9);
        let t = self.s[1] << 17;
        self.s[2] ^= self.s[0];
        self.s[3] ^= self.s[1];
        self.s[1] ^= self.s[2];
        self.s[0] ^= self.s[3];
        self.s[2] ^= t;
        self.s[3] = self.s[3].rotate_left(45);
        result
    }

    /// uniform in 0..n (n > 0)
    pub fn below(&mut self, n: usize) -> usize {
        if n <= 1 {
            return 0;
        }
        (self.next_u64() % (n as u64)) as usize
    }

    /// uniform in lo..=hi
    pub fn range(&mut self, lo: u64, hi: u64) -> u64 {
        if hi <= lo {
            return lo;
        }
        lo + self.next_u64() % (hi - lo + 1)
    }

    /// true with probability num/den
    pub fn chance(&mut self, num: u64, den: u64) -> bool {
        self.next_u64() % den < num
    }

    pub fn pick<T: Clone>(&mut self, items: &[T]) -> T {
        items[self.below(items.len())].clone()
    }

    /// pick an index according to integer weights
    pub fn weighted(&mut self, weights: &[u32]) -> usize {
        let total: u64 = weights.iter().map(|w| *w as u64).sum();
        if total == 0 {
            return self.below(weights.len());
        }
        let mut x = self.next_u64() % total;
        for (i, w) in weights.iter().enumerate() {
            if x < *w as u64 {
                return i;
            }
            x -= *w as u64;
        }
        weights.len() - 1
    }
}
