//! Operation language: one `Op` = one public API call with symbolic operands, serialisable to JSON.

use crate::engine::{engine, SimAbort};
use crate::world::{ItemIter, World, H};
use autosar_data::{
    ArxmlFile, AttributeName, AutosarDataError, AutosarModel, AutosarVersion, CharacterData, Element, ElementContent,
    ElementName, EnumItem, WeakElement,
};
use serde::{Deserialize, Serialize};
use std::str::FromStr;

#[derive(Clone, Copy, Debug, Serialize, Deserialize, PartialEq, Eq, Hash, PartialOrd, Ord)]
pub enum K {
    // model
    MNew,
    MCreateFile,
    MLoadBuffer,
    MRemoveFile,
    MSerializeFiles,
    MFiles,
    MRoot,
    MGetByPath,
    MDuplicate,
    MDfs,
    MSort,
    MIdentifiables,
    MRefsTo,
    MCheckRefs,
    MDebug,
    /// `load_file` from the simulated disk. `n` bit 0: load what the disk holds under the name (otherwise the document
    /// carried by the operation is put there first); bit 1: the read fails (injected fault)
    MLoadFile,
    /// `write()` to the simulated disk. `n % 100` = k > 0: the write of the k-th file (names in sorted order) fails
    /// (injected fault), leaving `n / 100` percent of that file on the disk (0: nothing)
    MWrite,
    /// drop every handle to the model that the harness holds (files and elements stay)
    MDrop,
    // file
    FName,
    FVersion,
    FSetVersion,
    FCheckCompat,
    FSetFilename,
    FModel,
    FDfs,
    FSerialize,
    FStandalone,
    FDebug,
    // element: readers
    EParent,
    ENamedParent,
    EName,
    EItemName,
    EIsIdent,
    EIsRef,
    EPath,
    EModel,
    EContentType,
    ECount,
    ECData,
    EContent,
    EPosition,
    ESubElements,
    EGetSub,
    EGetSubAt,
    EDfs,
    EAttrs,
    EAttrValue,
    ESerialize,
    EListValid,
    EFileMembership,
    EXmlPath,
    EInsertRange,
    EComment,
    EMinVersion,
    ECmp,
    EDebug,
    EGetRef,
    // element: writers
    ESetItemName,
    ECreate,
    ECreateAt,
    ECreateNamed,
    ECreateNamedAt,
    ECopy,
    ECopyAt,
    EMove,
    EMoveAt,
    ERemove,
    ERemoveKind,
    ESetRef,
    ESetCData,
    ERemoveCData,
    EInsertCC,
    ERemoveCC,
    EGetOrCreate,
    EGetOrCreateNamed,
    ESetAttr,
    ESetAttrStr,
    ERemoveAttr,
    ESort,
    EAddToFile,
    ERemoveFromFile,
    ESetComment,
    // iterators
    ItOpen,
    ItNext,
}

pub const ALL_KINDS: &[K] = &[
    K::MNew, K::MCreateFile, K::MLoadBuffer, K::MRemoveFile, K::MSerializeFiles, K::MFiles, K::MRoot, K::MGetByPath,
    K::MDuplicate, K::MDfs, K::MSort, K::MIdentifiables, K::MRefsTo, K::MCheckRefs, K::MDebug, K::MDrop, K::FName, K::FVersion,
    K::FSetVersion, K::FCheckCompat, K::FSetFilename, K::FModel, K::FDfs, K::FSerialize, K::FStandalone, K::FDebug,
    K::EParent, K::ENamedParent, K::EName, K::EItemName, K::EIsIdent, K::EIsRef, K::EPath, K::EModel, K::EContentType,
    K::ECount, K::ECData, K::EContent, K::EPosition, K::ESubElements, K::EGetSub, K::EGetSubAt, K::EDfs, K::EAttrs,
    K::EAttrValue, K::ESerialize, K::EListValid, K::EFileMembership, K::EXmlPath, K::EInsertRange, K::EComment,
    K::EMinVersion, K::ECmp, K::EDebug, K::EGetRef, K::ESetItemName, K::ECreate, K::ECreateAt, K::ECreateNamed,
    K::ECreateNamedAt, K::ECopy, K::ECopyAt, K::EMove, K::EMoveAt, K::ERemove, K::ERemoveKind, K::ESetRef, K::ESetCData,
    K::ERemoveCData, K::EInsertCC, K::ERemoveCC, K::EGetOrCreate, K::EGetOrCreateNamed, K::ESetAttr, K::ESetAttrStr,
    K::ERemoveAttr, K::ESort, K::EAddToFile, K::ERemoveFromFile, K::ESetComment, K::ItOpen, K::ItNext,
    // appended later (the order of the earlier entries is part of the scenario enumeration of C15 / C16)
    K::MLoadFile, K::MWrite,
];

#[derive(Clone, Copy, Debug, PartialEq, Eq)]
pub enum Recv {
    None,
    Model,
    File,
    Elem,
    Iter,
}

impl K {
    pub fn recv(self) -> Recv {
        let n = format!("{self:?}");
        if self == K::MNew {
            Recv::None
        } else if self == K::ItOpen {
            Recv::None // depends on the iterator kind
        } else if self == K::ItNext {
            Recv::Iter
        } else if n.starts_with('M') {
            Recv::Model
        } else if n.starts_with('F') {
            Recv::File
        } else {
            Recv::Elem
        }
    }

    /// what the second operand `b` is for this kind
    pub fn recv_b(self) -> Recv {
        match self {
            K::MRemoveFile | K::EAddToFile | K::ERemoveFromFile => Recv::File,
            K::ECopy | K::ECopyAt | K::EMove | K::EMoveAt | K::ERemove | K::ESetRef | K::ECmp => Recv::Elem,
            _ => Recv::None,
        }
    }

    /// does a successful call of this kind change the model?
    pub fn is_writer(self) -> bool {
        matches!(
            self,
            K::MCreateFile
                | K::MLoadBuffer
                | K::MLoadFile
                | K::MRemoveFile
                | K::MSort
                | K::FSetVersion
                | K::FSetFilename
                | K::ESetItemName
                | K::ECreate
                | K::ECreateAt
                | K::ECreateNamed
                | K::ECreateNamedAt
                | K::ECopy
                | K::ECopyAt
                | K::EMove
                | K::EMoveAt
                | K::ERemove
                | K::ERemoveKind
                | K::ESetRef
                | K::ESetCData
                | K::ERemoveCData
                | K::EInsertCC
                | K::ERemoveCC
                | K::EGetOrCreate
                | K::EGetOrCreateNamed
                | K::ESetAttr
                | K::ESetAttrStr
                | K::ERemoveAttr
                | K::ESort
                | K::EAddToFile
                | K::ERemoveFromFile
                | K::ESetComment
        )
    }

    pub fn name(self) -> String {
        format!("{self:?}")
    }
}

/// the kind under which a call appears in behavioural signatures: `load_file` is "read the file, then `load_buffer`", so
/// once the read has succeeded whatever happens is attributed to MLoadBuffer (and the listed findings of load_buffer
/// apply); a failed read is MLoadFile's own
pub fn sig_kind(op: &Op, ret: &Ret) -> String {
    if op.k == K::MLoadFile && ret.err.as_deref() != Some("IoErrorRead") {
        K::MLoadBuffer.name()
    } else {
        op.k.name()
    }
}

fn is_default<T: Default + PartialEq>(v: &T) -> bool {
    *v == T::default()
}

#[derive(Clone, Debug, Serialize, Deserialize, PartialEq)]
pub struct Op {
    pub k: K,
    /// receiver
    #[serde(default, skip_serializing_if = "is_default")]
    pub a: H,
    /// second operand (element or file)
    #[serde(default, skip_serializing_if = "is_default")]
    pub b: H,
    /// element name / attribute name / version / iterator kind
    #[serde(default, skip_serializing_if = "is_default")]
    pub name: String,
    /// item name / text / path / typed value / file name
    #[serde(default, skip_serializing_if = "is_default")]
    pub s: String,
    /// position / depth
    #[serde(default, skip_serializing_if = "is_default")]
    pub n: usize,
    #[serde(default, skip_serializing_if = "is_default")]
    pub flag: bool,
    /// buffer for load operations (lossy text; `hex` is used when the bytes are not valid utf-8)
    #[serde(default, skip_serializing_if = "is_default")]
    pub text: String,
    #[serde(default, skip_serializing_if = "is_default")]
    pub hex: String,
}

impl Op {
    pub fn new(k: K, a: H) -> Self {
        Self {
            k,
            a,
            b: H::default(),
            name: String::new(),
            s: String::new(),
            n: 0,
            flag: false,
            text: String::new(),
            hex: String::new(),
        }
    }
    pub fn b(mut self, b: H) -> Self {
        self.b = b;
        self
    }
    pub fn name(mut self, n: &str) -> Self {
        self.name = n.to_string();
        self
    }
    pub fn s(mut self, s: &str) -> Self {
        self.s = s.to_string();
        self
    }
    pub fn n(mut self, n: usize) -> Self {
        self.n = n;
        self
    }
    pub fn flag(mut self, f: bool) -> Self {
        self.flag = f;
        self
    }
    pub fn bytes(mut self, b: &[u8]) -> Self {
        match std::str::from_utf8(b) {
            Ok(s) => self.text = s.to_string(),
            Err(_) => self.hex = b.iter().map(|x| format!("{x:02x}")).collect(),
        }
        self
    }
    pub fn buffer(&self) -> Vec<u8> {
        if !self.hex.is_empty() {
            (0..self.hex.len() / 2)
                .filter_map(|i| u8::from_str_radix(&self.hex[2 * i..2 * i + 2], 16).ok())
                .collect()
        } else {
            self.text.as_bytes().to_vec()
        }
    }
    pub fn brief(&self) -> String {
        let mut s = format!("{:?}({}", self.k, self.a);
        if self.k.recv_b() != Recv::None {
            s.push_str(&format!(",{}", self.b));
        }
        if !self.name.is_empty() {
            s.push_str(&format!(",{}", self.name));
        }
        if !self.s.is_empty() {
            let t: String = self.s.chars().take(40).collect();
            s.push_str(&format!(",{t:?}"));
        }
        if self.n != 0 {
            s.push_str(&format!(",{}", self.n));
        }
        if !self.text.is_empty() || !self.hex.is_empty() {
            s.push_str(&format!(",<{} bytes>", self.buffer().len()));
        }
        s.push(')');
        s
    }
}

#[derive(Clone)]
pub enum Item {
    E(Element),
    F(ArxmlFile),
    M(AutosarModel),
    S(String),
    DeadWeak,
}

impl std::fmt::Debug for Item {
    fn fmt(&self, f: &mut std::fmt::Formatter<'_>) -> std::fmt::Result {
        match self {
            Item::E(_) => write!(f, "E"),
            Item::F(_) => write!(f, "F"),
            Item::M(_) => write!(f, "M"),
            Item::S(s) => write!(f, "{s:?}"),
            Item::DeadWeak => write!(f, "DEAD"),
        }
    }
}

#[derive(Clone, Debug, Default)]
pub struct Ret {
    pub shape: String,
    pub items: Vec<Item>,
    pub err: Option<String>,
    pub panic: Option<String>,
    pub aborted: bool,
    /// the strings of this result are documented as best-effort under contention (compare by shape only)
    pub best_effort: bool,
    pub skipped: bool,
    /// injected file-system faults that fired during the call
    pub io_fired: u32,
}

impl Ret {
    fn shape(s: &str) -> Self {
        Self {
            shape: s.to_string(),
            ..Default::default()
        }
    }
    fn with(mut self, it: Item) -> Self {
        self.items.push(it);
        self
    }
    fn s(self, s: impl Into<String>) -> Self {
        self.with(Item::S(s.into()))
    }
    pub fn is_err(&self) -> bool {
        self.err.is_some()
    }
    pub fn is_locked(&self) -> bool {
        self.err.as_deref() == Some("ParentElementLocked")
    }
    pub fn first_elem(&self) -> Option<Element> {
        self.items.iter().find_map(|i| if let Item::E(e) = i { Some(e.clone()) } else { None })
    }
    pub fn first_file(&self) -> Option<ArxmlFile> {
        self.items.iter().find_map(|i| if let Item::F(e) = i { Some(e.clone()) } else { None })
    }
    pub fn first_model(&self) -> Option<AutosarModel> {
        self.items.iter().find_map(|i| if let Item::M(e) = i { Some(e.clone()) } else { None })
    }
    /// canonical text; elements, files and models are rendered by the given functions
    pub fn canon(&self, fe: &dyn Fn(&Element) -> String, ff: &dyn Fn(&ArxmlFile) -> String, fm: &dyn Fn(&AutosarModel) -> String) -> String {
        let mut s = self.shape.clone();
        if let Some(p) = &self.panic {
            s.push_str(&format!(" PANIC({p})"));
        }
        if self.aborted {
            s.push_str(" ABORTED");
        }
        s.push('[');
        for (i, it) in self.items.iter().enumerate() {
            if i > 0 {
                s.push(',');
            }
            match it {
                Item::E(e) => s.push_str(&fe(e)),
                Item::F(f) => s.push_str(&ff(f)),
                Item::M(m) => s.push_str(&fm(m)),
                Item::S(t) => {
                    if self.best_effort {
                        s.push_str("<text>")
                    } else {
                        s.push_str(&format!("{t:?}"))
                    }
                }
                Item::DeadWeak => s.push_str("DEAD"),
            }
        }
        s.push(']');
        s
    }
}

pub fn err_name(e: &AutosarDataError) -> String {
    let d = format!("{e:?}");
    d.chars().take_while(|c| c.is_ascii_alphanumeric()).collect()
}

fn err(e: &AutosarDataError) -> Ret {
    let n = err_name(e);
    let mut r = Ret::shape(&format!("Err({n})"));
    r.err = Some(n);
    r
}

pub fn cd_str(c: &CharacterData) -> String {
    match c {
        CharacterData::Enum(e) => format!("e:{}", e.to_str()),
        CharacterData::String(s) => format!("s:{s}"),
        CharacterData::UnsignedInteger(u) => format!("u:{u}"),
        CharacterData::Float(f) => format!("f:{:016x}", f.to_bits()),
    }
}

pub fn parse_typed(s: &str) -> CharacterData {
    if let Some(r) = s.strip_prefix("e:") {
        if let Ok(e) = EnumItem::from_str(r) {
            return CharacterData::Enum(e);
        }
        return CharacterData::String(r.to_string());
    }
    if let Some(r) = s.strip_prefix("u:") {
        return CharacterData::UnsignedInteger(r.parse().unwrap_or(0));
    }
    if let Some(r) = s.strip_prefix("f:") {
        return CharacterData::Float(r.parse().unwrap_or(0.0));
    }
    if let Some(r) = s.strip_prefix("s:") {
        return CharacterData::String(r.to_string());
    }
    CharacterData::String(s.to_string())
}

pub fn ver_from(s: &str) -> Option<AutosarVersion> {
    AutosarVersion::from_str(s).ok()
}

fn weak_item(w: &WeakElement) -> Item {
    match w.upgrade() {
        Some(e) => Item::E(e),
        None => Item::DeadWeak,
    }
}

fn content_item(c: ElementContent) -> Item {
    match c {
        ElementContent::Element(e) => Item::E(e),
        ElementContent::CharacterData(c) => Item::S(cd_str(&c)),
    }
}

fn res_unit(r: Result<(), AutosarDataError>) -> Ret {
    match r {
        Ok(()) => Ret::shape("Ok"),
        Err(e) => err(&e),
    }
}

fn res_elem(r: Result<Element, AutosarDataError>) -> Ret {
    match r {
        Ok(e) => Ret::shape("Ok").with(Item::E(e)),
        Err(e) => err(&e),
    }
}

fn opt_elem(r: Option<Element>) -> Ret {
    match r {
        Some(e) => Ret::shape("Some").with(Item::E(e)),
        None => Ret::shape("None"),
    }
}

fn list(items: Vec<Item>) -> Ret {
    let mut r = Ret::shape(&format!("List({})", items.len()));
    r.items = items;
    r
}

pub const ITER_KINDS: &[&str] = &["sub", "content", "dfs", "attrs", "mdfs", "fdfs", "idents", "files"];

fn open_iter(w: &World, op: &Op) -> Option<ItemIter> {
    let it: ItemIter = match op.name.as_str() {
        "sub" => Box::new(w.elem(op.a)?.sub_elements().map(Item::E)),
        "content" => Box::new(w.elem(op.a)?.content().map(content_item)),
        "dfs" => Box::new(
            w.elem(op.a)?
                .elements_dfs_with_max_depth(op.n)
                .flat_map(|(d, e)| [Item::S(d.to_string()), Item::E(e)]),
        ),
        "attrs" => Box::new(
            w.elem(op.a)?
                .attributes()
                .map(|a| Item::S(format!("{}={}", a.attrname.to_str(), cd_str(&a.content)))),
        ),
        "mdfs" => Box::new(
            w.model(op.a)?
                .elements_dfs_with_max_depth(op.n)
                .flat_map(|(d, e)| [Item::S(d.to_string()), Item::E(e)]),
        ),
        "fdfs" => Box::new(
            w.file(op.a)?
                .elements_dfs_with_max_depth(op.n)
                .flat_map(|(d, e)| [Item::S(d.to_string()), Item::E(e)]),
        ),
        "idents" => Box::new(
            w.model(op.a)?
                .identifiable_elements()
                .flat_map(|(p, we)| [Item::S(p), weak_item(&we)]),
        ),
        "files" => Box::new(w.model(op.a)?.files().map(Item::F)),
        _ => return None,
    };
    Some(it)
}

/// cap for collecting iterators, so that a runaway iterator is reported instead of exhausting memory
pub const COLLECT_CAP: usize = 2_000_000;

fn exec_inner(w: &World, label: u32, op: &Op) -> Option<Ret> {
    let ename = || ElementName::from_str(&op.name).ok();
    let aname = || AttributeName::from_str(&op.name).ok();
    let r = match op.k {
        // ---------- model ----------
        K::MNew => Ret::shape("Ok").with(Item::M(AutosarModel::new())),
        K::MCreateFile => {
            let m = w.model(op.a)?;
            let v = ver_from(&op.name)?;
            match m.create_file(&op.s, v) {
                Ok(f) => Ret::shape("Ok").with(Item::F(f)),
                Err(e) => err(&e),
            }
        }
        K::MLoadBuffer => {
            let m = w.model(op.a)?;
            let buf = op.buffer();
            match m.load_buffer(&buf, &op.s, op.flag) {
                Ok((f, warnings)) => {
                    let mut r = Ret::shape(&format!("Ok(warnings={})", warnings.len())).with(Item::F(f));
                    for wn in warnings {
                        r = r.s(format!("{wn}"));
                    }
                    r
                }
                Err(e) => {
                    let mut r = err(&e);
                    r.best_effort = true;
                    r.s(format!("{e}"))
                }
            }
        }
        K::MLoadFile => {
            let m = w.model(op.a)?;
            let path = std::path::Path::new(&op.s);
            if op.n & 1 == 0 {
                crate::simfs::put(path, &op.buffer());
            }
            crate::simfs::arm(crate::simfs::Armed { read_err: op.n & 2 != 0, fail_name: None, torn_pct: 0 });
            struct Disarm;
            impl Drop for Disarm {
                fn drop(&mut self) {
                    crate::simfs::disarm();
                }
            }
            let guard = Disarm;
            let res = m.load_file(&op.s, op.flag);
            std::mem::forget(guard);
            let fired = crate::simfs::disarm();
            let mut r = match res {
                Ok((f, warnings)) => {
                    let mut r = Ret::shape(&format!("Ok(warnings={})", warnings.len())).with(Item::F(f));
                    for wn in warnings {
                        r = r.s(format!("{wn}"));
                    }
                    r
                }
                Err(e) => {
                    let mut r = err(&e);
                    r.best_effort = true;
                    r.s(format!("{e}"))
                }
            };
            r.io_fired = fired;
            r
        }
        K::MWrite => {
            let m = w.model(op.a)?;
            // which file fails: the k-th of the model's file names in sorted order (the order in which write() walks its
            // HashMap of files is random per process and must not decide anything)
            let k = op.n % 100;
            let fail_name = if k > 0 {
                let mut names: Vec<std::path::PathBuf> = m.files().map(|f| f.filename()).collect();
                names.sort();
                names.dedup();
                if names.is_empty() { None } else { Some(names[(k - 1) % names.len()].clone()) }
            } else {
                None
            };
            crate::simfs::arm(crate::simfs::Armed { read_err: false, fail_name, torn_pct: op.n / 100 });
            struct Disarm;
            impl Drop for Disarm {
                fn drop(&mut self) {
                    crate::simfs::disarm();
                }
            }
            let guard = Disarm;
            crate::engine::engine().io_point();
            let res = m.write();
            std::mem::forget(guard);
            if res.is_err() {
                crate::simfs::undo_other_writes_of_failed_call();
            }
            let fired = crate::simfs::disarm();
            let mut r = match res {
                Ok(()) => Ret::shape("Ok"),
                Err(e) => err(&e),
            };
            r.io_fired = fired;
            r
        }
        K::MRemoveFile => {
            let m = w.model(op.a)?;
            let f = w.file(op.b)?;
            m.remove_file(&f);
            Ret::shape("Unit")
        }
        K::MSerializeFiles => {
            let m = w.model(op.a)?;
            let mut v: Vec<(String, String)> = m
                .serialize_files()
                .into_iter()
                .map(|(p, s)| (p.to_string_lossy().to_string(), s))
                .collect();
            v.sort();
            let mut r = Ret::shape(&format!("Map({})", v.len()));
            for (p, s) in v {
                r = r.s(p).s(s);
            }
            r
        }
        K::MFiles => list(w.model(op.a)?.files().take(COLLECT_CAP).map(Item::F).collect()),
        K::MRoot => Ret::shape("Elem").with(Item::E(w.model(op.a)?.root_element())),
        K::MGetByPath => opt_elem(w.model(op.a)?.get_element_by_path(&op.s)),
        K::MDuplicate => match w.model(op.a)?.duplicate() {
            Ok(m) => Ret::shape("Ok").with(Item::M(m)),
            Err(e) => err(&e),
        },
        K::MDfs => list(
            w.model(op.a)?
                .elements_dfs_with_max_depth(op.n)
                .take(COLLECT_CAP)
                .flat_map(|(d, e)| [Item::S(d.to_string()), Item::E(e)])
                .collect(),
        ),
        K::MSort => {
            w.model(op.a)?.sort();
            Ret::shape("Unit")
        }
        K::MIdentifiables => {
            let mut v: Vec<(String, WeakElement)> = w.model(op.a)?.identifiable_elements().take(COLLECT_CAP).collect();
            v.sort_by(|a, b| a.0.cmp(&b.0));
            list(v.into_iter().flat_map(|(p, we)| [Item::S(p), weak_item(&we)]).collect())
        }
        K::MRefsTo => list(w.model(op.a)?.get_references_to(&op.s).iter().map(weak_item).collect()),
        K::MCheckRefs => list(w.model(op.a)?.check_references().iter().map(weak_item).collect()),
        K::MDebug => {
            let m = w.model(op.a)?;
            let s = format!("{m:?}");
            let mut r = Ret::shape("Debug").s(s.len().to_string());
            r.best_effort = true;
            r
        }
        K::MDrop => {
            let mut t = w.tables();
            if let Some(m) = t.models.remove(&op.a) {
                t.model_ids.remove(&m);
                t.model_order.retain(|h| *h != op.a);
                // iterators may hold the model too
                t.iters.clear();
                t.iter_order.clear();
            }
            Ret::shape("Unit")
        }
        // ---------- file ----------
        K::FName => Ret::shape("Str").s(w.file(op.a)?.filename().to_string_lossy().to_string()),
        K::FVersion => Ret::shape("Ver").s(w.file(op.a)?.version().filename()),
        K::FSetVersion => res_unit(w.file(op.a)?.set_version(ver_from(&op.name)?)),
        K::FCheckCompat => {
            let (errs, mask) = w.file(op.a)?.check_version_compatibility(ver_from(&op.name)?);
            let mut r = Ret::shape(&format!("Compat({})", errs.len())).s(format!("{mask:x}"));
            for e in errs {
                use autosar_data::CompatibilityError as CE;
                match e {
                    CE::IncompatibleElement { element, version_mask } => {
                        r = r.s(format!("elem:{version_mask:x}")).with(Item::E(element))
                    }
                    CE::IncompatibleAttribute { element, attribute, version_mask } => {
                        r = r.s(format!("attr:{}:{version_mask:x}", attribute.to_str())).with(Item::E(element))
                    }
                    CE::IncompatibleAttributeValue { element, attribute, attribute_value, version_mask } => {
                        r = r
                            .s(format!("attrval:{}:{attribute_value}:{version_mask:x}", attribute.to_str()))
                            .with(Item::E(element))
                    }
                }
            }
            r
        }
        K::FSetFilename => res_unit(w.file(op.a)?.set_filename(&op.s)),
        K::FModel => match w.file(op.a)?.model() {
            Ok(m) => Ret::shape("Ok").with(Item::M(m)),
            Err(e) => err(&e),
        },
        K::FDfs => list(
            w.file(op.a)?
                .elements_dfs_with_max_depth(op.n)
                .take(COLLECT_CAP)
                .flat_map(|(d, e)| [Item::S(d.to_string()), Item::E(e)])
                .collect(),
        ),
        K::FSerialize => match w.file(op.a)?.serialize() {
            Ok(s) => Ret::shape("Ok").s(s),
            Err(e) => err(&e),
        },
        K::FStandalone => Ret::shape("Opt").s(format!("{:?}", w.file(op.a)?.xml_standalone())),
        K::FDebug => {
            let f = w.file(op.a)?;
            let s = format!("{f:?}");
            let mut r = Ret::shape("Debug").s(s.len().to_string());
            r.best_effort = true;
            r
        }
        // ---------- element readers ----------
        K::EParent => match w.elem(op.a)?.parent() {
            Ok(Some(e)) => Ret::shape("Ok(Some)").with(Item::E(e)),
            Ok(None) => Ret::shape("Ok(None)"),
            Err(e) => err(&e),
        },
        K::ENamedParent => match w.elem(op.a)?.named_parent() {
            Ok(Some(e)) => Ret::shape("Ok(Some)").with(Item::E(e)),
            Ok(None) => Ret::shape("Ok(None)"),
            Err(e) => err(&e),
        },
        K::EName => Ret::shape("Name").s(w.elem(op.a)?.element_name().to_str()),
        K::EItemName => match w.elem(op.a)?.item_name() {
            Some(s) => Ret::shape("Some").s(s),
            None => Ret::shape("None"),
        },
        K::EIsIdent => Ret::shape("Bool").s(w.elem(op.a)?.is_identifiable().to_string()),
        K::EIsRef => Ret::shape("Bool").s(w.elem(op.a)?.is_reference().to_string()),
        K::EPath => match w.elem(op.a)?.path() {
            Ok(p) => Ret::shape("Ok").s(p),
            Err(e) => err(&e),
        },
        K::EModel => match w.elem(op.a)?.model() {
            Ok(m) => Ret::shape("Ok").with(Item::M(m)),
            Err(e) => err(&e),
        },
        K::EContentType => Ret::shape("CT").s(format!("{:?}", w.elem(op.a)?.content_type())),
        K::ECount => Ret::shape("Int").s(w.elem(op.a)?.content_item_count().to_string()),
        K::ECData => match w.elem(op.a)?.character_data() {
            Some(c) => Ret::shape("Some").s(cd_str(&c)),
            None => Ret::shape("None"),
        },
        K::EContent => list(w.elem(op.a)?.content().take(COLLECT_CAP).map(content_item).collect()),
        K::EPosition => Ret::shape("Opt").s(format!("{:?}", w.elem(op.a)?.position())),
        K::ESubElements => list(w.elem(op.a)?.sub_elements().take(COLLECT_CAP).map(Item::E).collect()),
        K::EGetSub => opt_elem(w.elem(op.a)?.get_sub_element(ename()?)),
        K::EGetSubAt => opt_elem(w.elem(op.a)?.get_sub_element_at(op.n)),
        K::EDfs => list(
            w.elem(op.a)?
                .elements_dfs_with_max_depth(op.n)
                .take(COLLECT_CAP)
                .flat_map(|(d, e)| [Item::S(d.to_string()), Item::E(e)])
                .collect(),
        ),
        K::EAttrs => list(
            w.elem(op.a)?
                .attributes()
                .take(COLLECT_CAP)
                .map(|a| Item::S(format!("{}={}", a.attrname.to_str(), cd_str(&a.content))))
                .collect(),
        ),
        K::EAttrValue => match w.elem(op.a)?.attribute_value(aname()?) {
            Some(c) => Ret::shape("Some").s(cd_str(&c)),
            None => Ret::shape("None"),
        },
        K::ESerialize => Ret::shape("Str").s(w.elem(op.a)?.serialize()),
        K::EListValid => {
            let v = w.elem(op.a)?.list_valid_sub_elements();
            let mut r = Ret::shape(&format!("List({})", v.len()));
            for i in v {
                r = r.s(format!("{}:{}:{}", i.element_name.to_str(), i.is_named, i.is_allowed));
            }
            r
        }
        K::EFileMembership => match w.elem(op.a)?.file_membership() {
            Ok((local, set)) => {
                let mut files: Vec<ArxmlFile> = set.iter().filter_map(|wf| wf.upgrade()).collect();
                let dead = set.len() - files.len();
                files.sort_by_key(|f| f.filename());
                let mut r = Ret::shape(&format!("Ok(local={local},n={},dead={dead})", set.len()));
                for f in files {
                    r = r.with(Item::F(f));
                }
                r
            }
            Err(e) => err(&e),
        },
        K::EXmlPath => {
            let mut r = Ret::shape("Str").s(w.elem(op.a)?.xml_path());
            r.best_effort = true;
            r
        }
        K::EInsertRange => {
            let v = ver_from(&op.s)?;
            match w.elem(op.a)?.calc_element_insert_range(ename()?, v) {
                Ok((a, b)) => Ret::shape("Ok").s(format!("{a}..{b}")),
                Err(e) => err(&e),
            }
        }
        K::EComment => match w.elem(op.a)?.comment() {
            Some(s) => Ret::shape("Some").s(s),
            None => Ret::shape("None"),
        },
        K::EMinVersion => match w.elem(op.a)?.min_version() {
            Ok(v) => Ret::shape("Ok").s(v.filename()),
            Err(e) => err(&e),
        },
        K::ECmp => {
            let a = w.elem(op.a)?;
            let b = w.elem(op.b)?;
            Ret::shape("Ord").s(format!("{:?}", a.cmp(&b)))
        }
        K::EDebug => {
            let e = w.elem(op.a)?;
            let s = format!("{e:?}");
            let mut r = Ret::shape("Debug").s(s.len().to_string());
            r.best_effort = true;
            r
        }
        K::EGetRef => res_elem(w.elem(op.a)?.get_reference_target()),
        // ---------- element writers ----------
        K::ESetItemName => res_unit(w.elem(op.a)?.set_item_name(&op.s)),
        K::ECreate => res_elem(w.elem(op.a)?.create_sub_element(ename()?)),
        K::ECreateAt => res_elem(w.elem(op.a)?.create_sub_element_at(ename()?, op.n)),
        K::ECreateNamed => res_elem(w.elem(op.a)?.create_named_sub_element(ename()?, &op.s)),
        K::ECreateNamedAt => res_elem(w.elem(op.a)?.create_named_sub_element_at(ename()?, &op.s, op.n)),
        K::ECopy => {
            let b = w.elem(op.b)?;
            res_elem(w.elem(op.a)?.create_copied_sub_element(&b))
        }
        K::ECopyAt => {
            let b = w.elem(op.b)?;
            res_elem(w.elem(op.a)?.create_copied_sub_element_at(&b, op.n))
        }
        K::EMove => {
            let b = w.elem(op.b)?;
            res_elem(w.elem(op.a)?.move_element_here(&b))
        }
        K::EMoveAt => {
            let b = w.elem(op.b)?;
            res_elem(w.elem(op.a)?.move_element_here_at(&b, op.n))
        }
        K::ERemove => {
            let b = w.elem(op.b)?;
            res_unit(w.elem(op.a)?.remove_sub_element(b))
        }
        K::ERemoveKind => res_unit(w.elem(op.a)?.remove_sub_element_kind(ename()?)),
        K::ESetRef => {
            let b = w.elem(op.b)?;
            res_unit(w.elem(op.a)?.set_reference_target(&b))
        }
        K::ESetCData => res_unit(w.elem(op.a)?.set_character_data(parse_typed(&op.s))),
        K::ERemoveCData => res_unit(w.elem(op.a)?.remove_character_data()),
        K::EInsertCC => res_unit(w.elem(op.a)?.insert_character_content_item(&op.s, op.n)),
        K::ERemoveCC => res_unit(w.elem(op.a)?.remove_character_content_item(op.n)),
        K::EGetOrCreate => res_elem(w.elem(op.a)?.get_or_create_sub_element(ename()?)),
        K::EGetOrCreateNamed => res_elem(w.elem(op.a)?.get_or_create_named_sub_element(ename()?, &op.s)),
        K::ESetAttr => res_unit(w.elem(op.a)?.set_attribute(aname()?, parse_typed(&op.s))),
        K::ESetAttrStr => res_unit(w.elem(op.a)?.set_attribute_string(aname()?, &op.s)),
        K::ERemoveAttr => Ret::shape("Bool").s(w.elem(op.a)?.remove_attribute(aname()?).to_string()),
        K::ESort => {
            w.elem(op.a)?.sort();
            Ret::shape("Unit")
        }
        K::EAddToFile => {
            let f = w.file(op.b)?;
            res_unit(w.elem(op.a)?.add_to_file(&f))
        }
        K::ERemoveFromFile => {
            let f = w.file(op.b)?;
            res_unit(w.elem(op.a)?.remove_from_file(&f))
        }
        K::ESetComment => {
            let c = if op.flag { None } else { Some(op.s.clone()) };
            w.elem(op.a)?.set_comment(c);
            Ret::shape("Unit")
        }
        // ---------- iterators ----------
        K::ItOpen => {
            let it = open_iter(w, op)?;
            let h = w.tables().reg_iter(label, it);
            Ret::shape("Iter").s(format!("{h}"))
        }
        K::ItNext => {
            let taken = {
                let mut t = w.tables();
                t.iters.get_mut(&op.a).and_then(|slot| slot.take())
            };
            let mut it = taken?;
            let item = it.next();
            {
                let mut t = w.tables();
                if let Some(slot) = t.iters.get_mut(&op.a) {
                    *slot = Some(it);
                }
            }
            match item {
                Some(i) => Ret::shape("Some").with(i),
                None => Ret::shape("None"),
            }
        }
    };
    Some(r)
}

/// execute one operation as the calling (managed or pass-through) thread; never unwinds
pub fn exec(w: &World, label: u32, op: &Op) -> Ret {
    let eng = engine();
    let res = std::panic::catch_unwind(std::panic::AssertUnwindSafe(|| {
        eng.op_start(label);
        let r = exec_inner(w, label, op);
        eng.op_end(label);
        r
    }));
    let ret = match res {
        Ok(Some(r)) => r,
        Ok(None) => {
            let mut r = Ret::shape("Skipped");
            r.skipped = true;
            r
        }
        Err(payload) => {
            let mut r = Ret::shape("Unwound");
            if payload.downcast_ref::<SimAbort>().is_some() {
                r.aborted = true;
            } else {
                r.panic = Some(crate::panic_message(&payload));
            }
            r
        }
    };
    // register returned objects as handles
    {
        let mut t = w.tables();
        for it in &ret.items {
            match it {
                Item::E(e) => {
                    t.reg_elem(label, e);
                }
                Item::F(f) => {
                    t.reg_file(label, f);
                }
                Item::M(m) => {
                    t.reg_model(label, m);
                }
                _ => {}
            }
        }
    }
    ret
}
