//! Per-property workload profiles for the single-client histories (swarm: each run draws its own variant).

use crate::engine::Ghost;
use crate::gen::{all_weights, base_weights, Profile};
use crate::hist::{HistCfg, PropSel};
use crate::ops::K;
use crate::rng::Rng;

fn boost(weights: &mut Vec<(K, u32)>, kinds: &[K], factor: u32) {
    for (k, w) in weights.iter_mut() {
        if kinds.contains(k) {
            *w *= factor;
        }
    }
}

fn drop_some(weights: &mut [(K, u32)], rng: &mut Rng, permille: u64) {
    // swarm testing: switch a random subset of kinds off for this run
    for (k, w) in weights.iter_mut() {
        if matches!(k, K::ECreate | K::ECreateNamed) {
            continue;
        }
        if rng.chance(permille, 1000) {
            *w = 0;
        }
    }
}

/// the configuration of run number `run` of a check (`faulty`: with ghost faults)
pub fn hist_cfg(prop: &str, run_seed: u64, thorough: bool) -> HistCfg {
    let mut rng = Rng::new(run_seed ^ 0x70F1_1E5);
    let mut weights = if prop == "C12" || prop == "C15" { all_weights() } else { base_weights() };
    let mut stale = 40;
    let mut selfp = 20;
    let mut foreign = 40;
    let mut bad = 50;
    // damaged documents are C11's and C12's business; the state properties load well-formed documents
    let mut load_fault = 0;
    let mut abuse = 0;
    // which fault configuration: C12 never has faults; the others alternate
    let ghost_on = prop == "C16" || (prop != "C12" && prop != "C15" && rng.chance(1, 2));
    match prop {
        "C03" => {
            stale = 150;
            abuse = 40;
            boost(&mut weights, &[K::ERemove, K::ERemoveKind, K::EMove, K::EMoveAt, K::MRemoveFile, K::ItOpen, K::ItNext, K::ESort], 2);
        }
        "C04" => {
            boost(&mut weights, &[K::ESetItemName, K::EMove, K::EMoveAt, K::ECopy, K::ECopyAt, K::ERemove, K::MLoadBuffer, K::MRemoveFile], 2);
            foreign = 80;
        }
        "C05" => {
            boost(&mut weights, &[K::ESetRef, K::ESetCData, K::ERemoveCData, K::ECopy, K::EMove, K::ERemove, K::ESetItemName, K::ESetAttr, K::ERemoveAttr, K::MLoadBuffer], 2);
        }
        "C06" => {
            boost(&mut weights, &[K::ESetItemName, K::EMove, K::EMoveAt, K::ESetRef], 4);
            foreign = 100;
        }
        "C10" => {
            boost(&mut weights, &[K::MCreateFile, K::EAddToFile, K::ERemoveFromFile, K::MRemoveFile, K::MLoadBuffer, K::FSetFilename, K::MDuplicate], 4);
        }
        "C11" => {
            bad = 250;
            stale = 80;
            selfp = 60;
            foreign = 80;
            load_fault = 500;
            boost(&mut weights, &[K::MLoadBuffer], 3);
        }
        "C12" => {
            abuse = 100;
            stale = 80;
            selfp = 60;
            foreign = 60;
            bad = 100;
            load_fault = 300;
        }
        "C13" => {
            boost(&mut weights, &[K::ECopy, K::ECopyAt, K::MDuplicate], 5);
            boost(&mut weights, &[K::MNew], 3);
            foreign = 200;
        }
        _ => {}
    }
    if rng.chance(1, 3) {
        drop_some(&mut weights, &mut rng, 250);
    }
    // the file-system calls (load_file / write on the simulated disk) belong to the workloads of C10 (what is written is
    // what the model holds), C11 (a failed read or write changes nothing) and C12 (neither panics); disk faults are
    // injected in the fault-injecting half of the runs only
    let mut io_fault = 0;
    match prop {
        "C10" => {
            weights.push((K::MWrite, 25));
            weights.push((K::MLoadFile, 20));
            io_fault = if ghost_on { 400 } else { 0 };
        }
        "C11" => {
            weights.push((K::MWrite, 25));
            weights.push((K::MLoadFile, 40));
            io_fault = if ghost_on { 500 } else { 0 };
        }
        "C12" => {
            weights.push((K::MWrite, 12));
            weights.push((K::MLoadFile, 12));
            io_fault = if run_seed & 1 == 1 { 300 } else { 0 };
        }
        _ => {}
    }
    let n_ops = if thorough { 10 + rng.below(90) } else { 8 + rng.below(50) };
    let max_nodes = *[40usize, 80, 150, 300].get(rng.below(if thorough { 4 } else { 3 })).unwrap();
    let ppm = [5_000u32, 10_000, 30_000, 100_000][rng.below(4)];
    HistCfg {
        seed: run_seed,
        profile: Profile {
            name: "swarm",
            weights,
            stale_permille: stale,
            self_permille: selfp,
            foreign_permille: foreign,
            bad_permille: bad,
            load_fault_permille: load_fault,
            abuse_permille: abuse,
            io_fault_permille: io_fault,
        },
        n_ops,
        max_nodes,
        ghost: if ghost_on { Ghost::Random { ppm, max: 1 } } else { Ghost::Off },
        props: {
            let mut p = PropSel::only(prop);
            if prop == "C15" {
                p.c15 = true;
            }
            p
        },
        scripted: None,
        keep_trace: false,
        reload_every: if prop == "C10" { 1 } else { 0 },
        stop_at_first: true,
        harvest_edges: prop == "C15",
        check_from: 0,
        known: crate::check::known_patterns(),
    }
}
