//! Single-client histories (the degenerate schedule) with and without ghost faults.
//! One driver serves the state properties C03 C04 C05 C06 C10 C11 C12 C13 and the
//! deterministic re-entrant-read supplement of C15; each check selects its own oracles.

use crate::engine::{engine, passthrough, Counters, Finding, Ghost, RunCfg};
use crate::gen::{Gen, Profile, View};
use crate::inv::{self, CheckOpts};
use crate::obs::ModelSnap;
use crate::ops::{exec, Op, Recv, Ret, K};
use crate::rng::Rng;
use crate::world::{World, H};
use autosar_data::Element;
use serde::{Deserialize, Serialize};
use std::collections::{BTreeMap, HashMap};

#[derive(Clone, Debug, Serialize, Deserialize)]
pub struct Violation {
    pub prop: String,
    pub sig: String,
    pub detail: String,
    /// label of the operation after which it was observed
    pub at: u32,
}

#[derive(Clone, Debug, Default)]
pub struct PropSel {
    pub c03: bool,
    pub c04: bool,
    pub c05: bool,
    pub c06: bool,
    pub c10: bool,
    pub c11: bool,
    pub c12: bool,
    pub c13: bool,
    pub c15: bool,
}

impl PropSel {
    pub fn only(p: &str) -> Self {
        let mut s = Self::default();
        match p {
            "C03" => s.c03 = true,
            "C04" => s.c04 = true,
            "C05" => s.c05 = true,
            "C06" => s.c06 = true,
            "C10" => s.c10 = true,
            "C11" => s.c11 = true,
            "C12" => s.c12 = true,
            "C13" => s.c13 = true,
            "C15" => s.c15 = true,
            _ => {}
        }
        s
    }
    pub fn all() -> Self {
        Self { c03: true, c04: true, c05: true, c06: true, c10: true, c11: true, c12: true, c13: true, c15: true }
    }
    fn wants(&self, p: &str) -> bool {
        match p {
            "C03" => self.c03,
            "C04" => self.c04,
            "C05" => self.c05,
            "C06" => self.c06,
            "C10" => self.c10,
            "C11" => self.c11,
            "C12" => self.c12,
            "C13" => self.c13,
            "C15" => self.c15,
            _ => false,
        }
    }
}

#[derive(Clone)]
pub struct HistCfg {
    pub seed: u64,
    pub profile: Profile,
    pub n_ops: usize,
    pub max_nodes: usize,
    pub ghost: Ghost,
    pub props: PropSel,
    /// replay / minimisation: execute exactly these operations instead of generating
    pub scripted: Option<Vec<(u32, Op)>>,
    pub keep_trace: bool,
    /// reload every file into a fresh model every n-th operation (0 = only at the end)
    pub reload_every: usize,
    /// stop at the first violation (normal) or continue (only for measuring)
    pub stop_at_first: bool,
    /// collect the lock-order edges of every call (C15)
    pub harvest_edges: bool,
    /// fault enumeration: only execute (do not observe or check) the scripted operations before this index
    pub check_from: usize,
    /// listed findings (property, signature pattern): a violation of ANOTHER property ends the history only if it is a
    /// listed finding; an unlisted one is a new defect, and what follows from it concerns this property as well
    pub known: std::sync::Arc<Vec<(String, String)>>,
}

#[derive(Clone, Debug, Default)]
pub struct OpRecord {
    pub label: u32,
    pub op: Option<Op>,
    pub ret: String,
    pub try_timed: u64,
    pub ghost_fired: u64,
    /// hash of the canonical state after the call
    pub post_hash: u64,
    /// description of the ghost fault that hit this call (if any)
    pub ghost: Option<String>,
    /// lock-order edges of this call (only with harvest_edges)
    pub edges: Vec<String>,
}

#[derive(Default)]
pub struct HistResult {
    pub ops: Vec<OpRecord>,
    pub violations: Vec<Violation>,
    pub counters: Counters,
    pub ghost_fired_at: Vec<(u32, u64)>,
    pub state_hashes: Vec<u64>,
    pub log_hash: u64,
    pub sim_ns: u64,
    pub trace: Vec<crate::engine::Ev>,
    pub errs: u64,
    pub locked: u64,
    pub kinds: BTreeMap<String, u64>,
    pub err_kinds: BTreeMap<String, u64>,
    pub max_nodes_seen: usize,
    pub probes: BTreeMap<String, u64>,
    /// lock-order edges (nested blocking acquisitions) seen, as behavioural signatures with their number of occurrences
    pub edges: BTreeMap<String, u64>,
}

fn fault_name(g: &Ghost, fired: u64) -> &'static str {
    match g {
        Ghost::Off => "none",
        _ => {
            if fired > 0 {
                "ghost"
            } else {
                "none"
            }
        }
    }
}

/// where a handle is, relative to the known models
#[derive(Clone, Copy, Debug, PartialEq, Eq)]
pub enum Place {
    Live(usize, usize), // (model index in view, node index)
    Detached,
    /// part of the tree of a model that no handle refers to any more
    Orphan,
    Unknown,
}

pub fn place_of(view: &View, world: &World, h: H) -> Place {
    match world.elem(h) {
        None => Place::Unknown,
        Some(e) => {
            for (mi, (_, ms)) in view.models.iter().enumerate() {
                if let Some(i) = ms.by_elem.get(&e) {
                    return Place::Live(mi, *i);
                }
            }
            if view.orphans.contains(&h) { Place::Orphan } else { Place::Detached }
        }
    }
}

fn is_ancestor(ms: &ModelSnap, anc: usize, mut n: usize) -> bool {
    while let Some(p) = ms.nodes[n].parent {
        if p == anc {
            return true;
        }
        n = p;
    }
    false
}

/// for every container (keyed by the chain of names / element names from the root) the identifiable children in order
fn ident_children_by_container(ms: &ModelSnap) -> HashMap<String, Vec<(String, String)>> {
    let mut keys: Vec<String> = vec![String::new(); ms.nodes.len()];
    let mut out: HashMap<String, Vec<(String, String)>> = HashMap::new();
    for (i, n) in ms.nodes.iter().enumerate() {
        let own = match &n.item_name {
            Some(name) if n.identifiable => format!("{}:{}", n.name.to_str(), name),
            _ => n.name.to_str().to_string(),
        };
        keys[i] = match n.parent {
            Some(p) => format!("{}/{}", keys[p], own),
            None => own,
        };
        if let (Some(p), true, Some(name)) = (n.parent, n.identifiable, &n.item_name) {
            out.entry(keys[p].clone()).or_default().push((n.name.to_str().to_string(), name.clone()));
        }
    }
    out
}

/// does the document list, below some element that the model has too, two identifiable children of DIFFERENT kinds which
/// the model also has there, in the opposite order? (the situation in which the merge of load_buffer imports an element
/// whose path the model already has: it walks both child lists in parallel and, on different kinds, only compares their
/// positions in the specification)
fn load_reorders_kinds(ms: &ModelSnap, op: &Op) -> bool {
    // (a probe of the harness: a panic of the loader on this document is the business of the call itself, not of the probe)
    let buf = op.buffer();
    let loaded = std::panic::catch_unwind(std::panic::AssertUnwindSafe(|| {
        let doc = autosar_data::AutosarModel::new();
        doc.load_buffer(&buf, "probe.arxml", false).ok().map(|_| doc)
    }));
    let Ok(Some(doc)) = loaded else { return false };
    let ds = crate::obs::snapshot(&doc);
    let a = ident_children_by_container(ms);
    let b = ident_children_by_container(&ds);
    for (key, la) in &a {
        let Some(lb) = b.get(key) else { continue };
        let common: Vec<&(String, String)> = la.iter().filter(|x| lb.contains(x)).collect();
        for (i, x) in common.iter().enumerate() {
            for y in &common[i + 1..] {
                if x.0 != y.0 {
                    let (px, py) = (lb.iter().position(|z| z == *x), lb.iter().position(|z| z == *y));
                    if px > py {
                        return true;
                    }
                }
            }
        }
    }
    false
}

/// context of an operation's operands: where they are relative to each other and to the known models.
/// `detached_by` tells which kind of operation took a stale handle out of the tree.
pub fn relation(view: &View, world: &World, op: &Op, detached_by: &HashMap<H, K>) -> String {
    let stale = |h: H| -> String {
        match detached_by.get(&h) {
            Some(k) => format!("stale({})", k.name()),
            None => "stale".to_string(),
        }
    };
    let file_state = |fh: H, model_of_a: Option<usize>| -> String {
        if view.removed_files.contains(&fh) {
            return "f=removed".to_string();
        }
        match view.live_files.iter().find(|(f, _)| *f == fh) {
            Some((_, mh)) => {
                let mi = view.models.iter().position(|(h, _)| h == mh);
                if model_of_a.is_some() && mi != model_of_a { "f=foreign".to_string() } else { "f=own".to_string() }
            }
            None => "f=unknown".to_string(),
        }
    };
    match op.k.recv() {
        Recv::Model => {
            let mi = world.model(op.a).and_then(|m| view.models.iter().position(|(_, ms)| ms.model == m));
            let mut r = if mi == Some(0) { "m=primary".to_string() } else { "m=other".to_string() };
            if let Some(mi) = mi {
                // a named kind of element without SHORT-NAME (only the editing API can produce that)
                if view.models[mi].1.nodes.iter().any(|n| !n.identifiable && n.e.element_type().is_named() && n.parent.is_some()) {
                    r.push_str(",has-unnamed");
                }
            }
            if op.k.recv_b() == Recv::File {
                r.push(',');
                r.push_str(&file_state(op.b, mi));
                if let Some(mi) = mi {
                    let ms = &view.models[mi].1;
                    if ms.files.len() == 1 && file_state(op.b, Some(mi)) == "f=own" {
                        r.push_str(",last-file");
                    }
                }
            }
            if let Some(mi) = mi {
                let ms = &view.models[mi].1;
                if !ms.files.is_empty() && ms.nodes[0].local.len() != ms.files.len() {
                    r.push_str(",root-restricted");
                }
                if op.k == K::MLoadBuffer || (op.k == K::MLoadFile && op.n & 1 == 0) {
                    if !ms.files.is_empty() && load_reorders_kinds(ms, op) {
                        r.push_str(",reordered-kinds");
                    }
                }
            }
            return r;
        }
        Recv::File => return file_state(op.a, None),
        Recv::Elem => {}
        _ => return "-".to_string(),
    }
    let pa = place_of(view, world, op.a);
    let a_state = match pa {
        Place::Live(0, 0) => "a=root".to_string(),
        Place::Live(mi, ni) if view.models[mi].1.nodes[ni].name == autosar_data::ElementName::ShortName => "a=short-name".to_string(),
        Place::Live(0, _) => "a=live".to_string(),
        Place::Live(_, 0) => "a=foreign-root".to_string(),
        Place::Live(_, _) => "a=foreign".to_string(),
        Place::Detached => format!("a={}", stale(op.a)),
        Place::Orphan => "a=orphan".to_string(),
        Place::Unknown => "a=unknown".to_string(),
    };
    match op.k.recv_b() {
        Recv::File => {
            let mi = if let Place::Live(mi, _) = pa { Some(mi) } else { None };
            let mut r = format!("{a_state},{}", file_state(op.b, mi));
            // is the element (or the root above it) restricted to a subset of the files?
            if let Place::Live(mi, ni) = pa {
                let ms = &view.models[mi].1;
                if ms.nodes[0].local.len() != ms.files.len() {
                    r.push_str(",root-restricted");
                }
                if ms.nodes[ni].eff.len() == 1 {
                    r.push_str(",single-file");
                }
            }
            return r;
        }
        Recv::Elem => {}
        _ => return a_state,
    }
    let pb = place_of(view, world, op.b);
    if op.a == op.b {
        return format!("{a_state},b=a");
    }
    let b_kind = match pb {
        Place::Live(mb, ib) if matches!(op.k, K::ECopy | K::ECopyAt | K::EMove | K::EMoveAt) => {
            let n = &view.models[mb].1.nodes[ib];
            if n.identifiable {
                ",b-ident"
            } else if view.models[mb].1.subtree_range(ib).any(|j| view.models[mb].1.nodes[j].identifiable) {
                ",b-anon-with-idents"
            } else {
                ",b-anon"
            }
        }
        _ => "",
    };
    let r = relation_ab(view, world, op, pa, pb, &a_state, &stale);
    format!("{r}{b_kind}")
}

fn relation_ab(view: &View, _world: &World, op: &Op, pa: Place, pb: Place, a_state: &str, stale: &dyn Fn(H) -> String) -> String {
    match (pa, pb) {
        (Place::Live(ma, ia), Place::Live(mb, ib)) => {
            if ma != mb {
                "cross-model".to_string()
            } else {
                let ms = &view.models[ma].1;
                if is_ancestor(ms, ia, ib) {
                    if ms.nodes[ib].parent == Some(ia) { "a=parent(b)".to_string() } else { "a=ancestor(b)".to_string() }
                } else if is_ancestor(ms, ib, ia) {
                    "b=ancestor(a)".to_string()
                } else if ms.nodes[ia].parent == ms.nodes[ib].parent {
                    "siblings".to_string()
                } else if ms.nodes[ib].parent.map(|p| is_ancestor(ms, p, ia)).unwrap_or(false) {
                    "b=sibling-of-ancestor(a)".to_string()
                } else {
                    "unrelated".to_string()
                }
            }
        }
        (_, Place::Detached) => format!("{a_state},b={}", stale(op.b)),
        (_, Place::Orphan) => format!("{a_state},b=orphan"),
        (Place::Detached, _) => a_state.to_string(),
        _ => "unknown".to_string(),
    }
}

/// operations that depend on the element's place in the model: through a stale handle they must fail
fn place_dependent(k: K) -> bool {
    matches!(
        k,
        K::EParent
            | K::EModel
            | K::EPath
            | K::EFileMembership
            | K::EMinVersion
            | K::ECreate
            | K::ECreateAt
            | K::ECreateNamed
            | K::ECreateNamedAt
            | K::EGetOrCreate
            | K::EGetOrCreateNamed
            | K::ECopy
            | K::ECopyAt
            | K::EMove
            | K::EMoveAt
            | K::ESetItemName
            | K::ERemove
            | K::ERemoveKind
            | K::EAddToFile
            | K::ERemoveFromFile
    )
}

struct PreCapture {
    /// C06: reference node -> (text, target element) for references that resolve uniquely; and the moved / renamed set
    refs: Vec<(Element, String, Option<Element>)>,
    moved: Vec<Element>,
    /// C13: text of the source subtree, and its elements
    src_text: Option<String>,
    /// what the copy must look like (None inside: the copy must be refused)
    expect_copy: Option<Option<String>>,
    src_elems: Vec<Element>,
    src_model: usize,
    dst_model: usize,
    same_version: bool,
    /// C10: remove_file: texts of the other files and the expected surviving tree
    other_file_texts: Vec<(autosar_data::ArxmlFile, String)>,
    expect_tree_after_remove: Option<String>,
    dup_file_texts: Vec<(String, String)>,
    dup_clean: bool,
}

fn capture_pre(view: &View, world: &World, op: &Op, _sel: &PropSel) -> PreCapture {
    let mut pc = PreCapture {
        refs: Vec::new(),
        moved: Vec::new(),
        src_text: None,
        expect_copy: None,
        src_elems: Vec::new(),
        src_model: usize::MAX,
        dst_model: usize::MAX,
        same_version: false,
        other_file_texts: Vec::new(),
        expect_tree_after_remove: None,
        dup_file_texts: Vec::new(),
        dup_clean: false,
    };
    let subject = match op.k {
        K::ESetItemName => Some(op.a),
        K::EMove | K::EMoveAt => Some(op.b),
        _ => None,
    };
    {
        if let Some(sh) = subject {
            if let Place::Live(mi, ni) = place_of(view, world, sh) {
                let ms = &view.models[mi].1;
                let d = inv::derive(ms);
                for j in ms.subtree_range(ni) {
                    if ms.nodes[j].identifiable {
                        pc.moved.push(ms.nodes[j].e.clone());
                    }
                }
                for (text, rs) in &d.refs {
                    let target = match d.paths.get(text) {
                        Some(t) if t.len() == 1 => Some(ms.nodes[t[0]].e.clone()),
                        Some(_) => continue, // ambiguous: C04's business
                        None => None,
                    };
                    for r in rs {
                        pc.refs.push((ms.nodes[*r].e.clone(), text.clone(), target.clone()));
                    }
                }
                pc.src_model = mi;
            }
        }
    }
    if matches!(op.k, K::ECopy | K::ECopyAt) {
        if let (Place::Live(smi, sni), Place::Live(dmi, dni)) = (place_of(view, world, op.b), place_of(view, world, op.a)) {
            let ms = &view.models[smi].1;
            pc.src_text = Some(ms.subtree_text(sni, false));
            if let Ok(dv) = view.models[dmi].1.nodes[dni].e.min_version() {
                pc.expect_copy = Some(crate::obs::expected_copy_text(&ms.nodes[sni].e, dv));
            }
            for j in ms.subtree_range(sni) {
                pc.src_elems.push(ms.nodes[j].e.clone());
            }
            pc.src_model = smi;
            pc.dst_model = dmi;
            let sv = ms.nodes[sni].e.min_version().ok();
            let dv = view.models[dmi].1.nodes[dni].e.min_version().ok();
            pc.same_version = sv.is_some() && sv == dv;
        }
    }
    if op.k == K::MDuplicate {
        if let Some(m) = world.model(op.a) {
            // the text comparison presupposes a model whose content is permitted in the (single) version of its files
            let vers: Vec<_> = m.files().map(|f| f.version()).collect();
            let mut clean = !vers.is_empty() && vers.iter().all(|v| *v == vers[0]);
            if clean {
                if let Some((_, ms)) = view.models.iter().find(|(_, ms)| ms.model == m) {
                    for c in &ms.nodes[0].children {
                        let plain = ms.subtree_text(*c, false);
                        if crate::obs::expected_copy_text(&ms.nodes[*c].e, vers[0]).as_deref() != Some(plain.as_str()) {
                            clean = false;
                        }
                    }
                }
            }
            pc.dup_clean = clean;
            let mut v: Vec<(String, String)> = m.serialize_files().into_iter().map(|(p, s)| (p.to_string_lossy().to_string(), s)).collect();
            v.sort();
            pc.dup_file_texts = v;
        }
    }
    if op.k == K::MRemoveFile {
        if let (Some(m), Some(f)) = (world.model(op.a), world.file(op.b)) {
            if let Some((_, ms)) = view.models.iter().find(|(_, ms)| ms.model == m) {
                if let Some(fi) = ms.files.iter().position(|x| x.f == f) {
                    if ms.files.len() > 1 {
                        for (oi, of) in ms.files.iter().enumerate() {
                            if oi != fi {
                                if let Ok(t) = of.f.serialize() {
                                    pc.other_file_texts.push((of.f.clone(), t));
                                }
                            }
                        }
                        // expected tree: drop nodes whose effective set is exactly {f}
                        let mut s = String::new();
                        for n in &ms.nodes {
                            if n.eff.len() == 1 && n.eff[0] == fi {
                                continue;
                            }
                            // content list without dropped children
                            let mut cs = String::new();
                            for c in &n.content {
                                match c {
                                    crate::obs::CItem::E(j) => {
                                        if *j != usize::MAX {
                                            let ce = &ms.nodes[*j].eff;
                                            if !(ce.len() == 1 && ce[0] == fi) {
                                                cs.push_str("e,");
                                            }
                                        }
                                    }
                                    crate::obs::CItem::C(t) => cs.push_str(&format!("c{t:?},")),
                                }
                            }
                            s.push_str(&format!("{}|{}|{}\n", n.depth, n.head, cs));
                        }
                        pc.expect_tree_after_remove = Some(s);
                    }
                }
            }
        }
    }
    pc
}

/// the own item name of a subtree text (first SHORT-NAME line at depth 1), with the byte range of the name
fn own_name(text: &str) -> Option<(String, std::ops::Range<usize>)> {
    let mut off = 0;
    for line in text.split_inclusive('\n') {
        if line.starts_with("1|SHORT-NAME|") {
            let pos = line.rfind("c\"s:")?;
            let start = pos + 4;
            let end = line.rfind('"')?;
            if end < start {
                return None;
            }
            return Some((line[start..end].to_string(), off + start..off + end));
        }
        if line.starts_with("1|") {
            // the first child is not a SHORT-NAME
            return None;
        }
        off += line.len();
    }
    None
}

/// compare a copy with its source: identical apart from a `_<n>` suffix on the copy's own item name
fn copy_equals_source(copy: &str, src: &str) -> bool {
    if copy == src {
        return true;
    }
    match (own_name(copy), own_name(src)) {
        (Some((cn, cr)), Some((sn, _))) => {
            let suffix_ok = cn == sn
                || (cn.len() > sn.len() + 1
                    && cn.starts_with(&sn)
                    && cn.as_bytes()[sn.len()] == b'_'
                    && cn[sn.len() + 1..].chars().all(|c| c.is_ascii_digit()));
            if !suffix_ok {
                return false;
            }
            let mut c2 = String::new();
            c2.push_str(&copy[..cr.start]);
            c2.push_str(&sn);
            c2.push_str(&copy[cr.end..]);
            c2 == src
        }
        _ => false,
    }
}

#[allow(clippy::too_many_arguments)]
fn post_checks(
    cfg: &HistCfg,
    pre: &View,
    post: &View,
    world: &World,
    label: u32,
    op: &Op,
    ret: &Ret,
    pc: &PreCapture,
    fault: &'static str,
    rel: &str,
    out: &mut Vec<Violation>,
) {
    let sel = &cfg.props;
    let kn = format!("{}|{rel}|{}", crate::ops::sig_kind(op, ret), outcome_of(ret));
    let mut push = |prop: &str, sig: String, detail: String| {
        out.push(Violation { prop: prop.to_string(), sig, detail, at: label });
    };
    let pre_canon = pre.canon();
    let post_canon = post.canon();
    let changed = pre_canon != post_canon;

    // ---- C11: an error return leaves everything unchanged
    if ret.is_err() && changed {
        let mut section = "tree";
        let mut detail = String::new();
        for ((_, a), (_, b)) in pre.models.iter().zip(post.models.iter()) {
            if let Some((s, d)) = a.diff_section(b) {
                section = s;
                detail = d;
                break;
            }
        }
        if pre.models.len() != post.models.len() {
            section = "models";
        }
        push("C11", format!("{kn}|{section}|{fault}"), format!("{} returned {} but the model changed: {detail}", op.brief(), ret.shape));
    }

    // ---- C10 (nothing lost on write): after a write() that reported success the disk holds, under each file's name,
    // exactly the text the model produces for that file
    if op.k == K::MWrite && !ret.is_err() && ret.panic.is_none() && !ret.aborted && !ret.skipped {
        if let Some(m) = world.model(op.a) {
            if let Some((_, ms)) = post.models.iter().find(|(_, ms)| ms.model == m) {
                for fi in &ms.files {
                    if ms.files.iter().filter(|o| o.name == fi.name).count() > 1 {
                        // two files of one model under one name (a listed finding of its own): no single expected text
                        continue;
                    }
                    let Ok(text) = fi.f.serialize() else { continue };
                    match crate::simfs::get(std::path::Path::new(&fi.name)) {
                        None => push("C10", format!("{kn}|written-file-missing|{fault}"), format!("{} returned Ok but `{}` is not on the disk", op.brief(), fi.name)),
                        Some(d) if d != text.as_bytes() => {
                            let at = d.iter().zip(text.as_bytes()).position(|(a, b)| a != b).unwrap_or(d.len().min(text.len()));
                            push(
                                "C10",
                                format!("{kn}|written-file-differs|{fault}"),
                                format!("{} returned Ok but `{}` on the disk ({} bytes) is not the text of the file ({} bytes; first difference at byte {at})", op.brief(), fi.name, d.len(), text.len()),
                            )
                        }
                        _ => {}
                    }
                }
            }
        }
    }

    // ---- C03 (second sentence): stale handles
    if op.k.recv() == Recv::Elem {
        let pa = place_of(pre, world, op.a);
        let stale_recv = pa == Place::Detached;
        let stale_src = matches!(op.k, K::EMove | K::EMoveAt) && place_of(pre, world, op.b) == Place::Detached;
        if (stale_recv || stale_src) && place_dependent(op.k) && !ret.is_err() && !ret.skipped && ret.panic.is_none() && !ret.aborted {
            push("C03", format!("{kn}|stale-handle-call-succeeds|{fault}"), format!("{} through a handle that is not part of the tree returned {}", op.brief(), ret.shape));
        }
        if stale_recv && changed {
            push("C03", format!("{kn}|stale-handle-changes-model|{fault}"), format!("{} through a stale handle changed the live model", op.brief()));
        }
    }

    // ---- C13 / independence: models that own none of the operands stay unchanged
    {
        let mut touched: Vec<usize> = Vec::new();
        let mut mark = |p: Place| {
            if let Place::Live(mi, _) = p {
                touched.push(mi);
            }
        };
        if op.k.recv() == Recv::Elem {
            mark(place_of(pre, world, op.a));
            mark(place_of(post, world, op.a));
        }
        if op.k.recv_b() == Recv::Elem {
            mark(place_of(pre, world, op.b));
            mark(place_of(post, world, op.b));
        }
        let model_of_file = |v: &View, fh: H| -> Option<usize> {
            let f = world.file(fh)?;
            // a removed file still belongs to its model for this purpose
            let m = f.model().ok()?;
            v.models.iter().position(|(_, ms)| ms.model == m)
        };
        if op.k.recv() == Recv::File {
            if let Some(mi) = model_of_file(pre, op.a) {
                touched.push(mi);
            }
        }
        if op.k.recv_b() == Recv::File {
            if let Some(mi) = model_of_file(pre, op.b) {
                touched.push(mi);
            }
        }
        if op.k.recv() == Recv::Model {
            if let Some(m) = world.model(op.a) {
                if let Some(mi) = pre.models.iter().position(|(_, ms)| ms.model == m) {
                    touched.push(mi);
                }
            }
        }
        if op.k == K::ItNext || op.k == K::ItOpen {
            touched.extend(0..pre.models.len());
        }
        for (mi, ((_, a), (_, b))) in pre.models.iter().zip(post.models.iter()).enumerate() {
            if !touched.contains(&mi) && a.canon != b.canon {
                let d = a.diff_section(b).map(|x| x.1).unwrap_or_default();
                push("C13", format!("{kn}|other-model-changed|{fault}"), format!("{} changed a model that owns none of its operands: {d}", op.brief()));
            }
        }
    }

    let ok = !ret.is_err() && ret.panic.is_none() && !ret.aborted && !ret.skipped;

    // ---- C06: references follow rename / move
    if ok && matches!(op.k, K::ESetItemName | K::EMove | K::EMoveAt) && !pc.refs.is_empty() {
        let subject = if op.k == K::ESetItemName { op.a } else { op.b };
        if let Place::Live(dmi, _) = place_of(post, world, subject) {
            let dst = &post.models[dmi].1;
            let cross = dmi != pc.src_model;
            for (r, old_text, target) in &pc.refs {
                let in_moved = target.as_ref().map(|t| pc.moved.contains(t)).unwrap_or(false);
                // where is the reference now, and what is its text
                let (rm, rnode) = match post.models.iter().enumerate().find_map(|(mi, (_, ms))| ms.by_elem.get(r).map(|i| (mi, *i))) {
                    Some(x) => x,
                    None => continue,
                };
                let new_text = post.models[rm].1.nodes[rnode].ref_text.clone();
                if in_moved {
                    if cross && rm != dmi {
                        // a reference that stayed behind in the source model: not covered by the statement
                        continue;
                    }
                    let resolved = new_text.as_ref().and_then(|t| dst.model.get_element_by_path(t));
                    if resolved.as_ref() != target.as_ref() {
                        push(
                            "C06",
                            format!("{kn}|reference-lost-target|{fault}"),
                            format!("{}: reference with text `{old_text}` now reads {:?} and does not designate the same element", op.brief(), new_text),
                        );
                    } else if let Ok(t) = r.get_reference_target() {
                        if Some(&t) != target.as_ref() {
                            push("C06", format!("{kn}|reference-target-differs|{fault}"), format!("{}: get_reference_target disagrees for `{old_text}`", op.brief()));
                        }
                    }
                } else if !cross || rm != dmi {
                    if new_text.as_deref() != Some(old_text.as_str()) {
                        push(
                            "C06",
                            format!("{kn}|unrelated-reference-rewritten|{fault}"),
                            format!("{}: reference `{old_text}` does not designate the renamed/moved subtree but now reads {:?}", op.brief(), new_text),
                        );
                    }
                }
            }
        }
    }

    // ---- C13: deep copy
    if ok && matches!(op.k, K::ECopy | K::ECopyAt) {
        if let (Some(src_text), Some(copy)) = (&pc.src_text, ret.first_elem()) {
            // source unchanged
            if let Place::Live(smi, sni) = place_of(post, world, op.b) {
                let now = post.models[smi].1.subtree_text(sni, false);
                if now != *src_text {
                    push("C13", format!("{kn}|source-changed|{fault}"), format!("{}: the source subtree changed", op.brief()));
                }
            }
            if let Some((cmi, cni)) = post.models.iter().enumerate().find_map(|(mi, (_, ms))| ms.by_elem.get(&copy).map(|i| (mi, *i))) {
                let cms = &post.models[cmi].1;
                // no shared nodes
                for j in cms.subtree_range(cni) {
                    if pc.src_elems.contains(&cms.nodes[j].e) {
                        push("C13", format!("{kn}|copy-shares-node|{fault}"), format!("{}: the copy contains an element object of the source ({})", op.brief(), cms.nodes[j].name));
                        break;
                    }
                }
                if let Some(Some(want)) = &pc.expect_copy {
                    let got = cms.subtree_text(cni, false);
                    let want = want.clone();
                    if !copy_equals_source(&got, &want) {
                        let (mut la, mut lb) = (String::from("<end>"), String::from("<end>"));
                        for (a, b) in got.lines().zip(want.lines()) {
                            if a != b {
                                la = a.to_string();
                                lb = b.to_string();
                                break;
                            }
                        }
                        push("C13", format!("{kn}|copy-content-differs|{fault}"), format!("{}: copy `{la}` vs source `{lb}` ({} vs {} lines)", op.brief(), got.lines().count(), want.lines().count()));
                    }
                }
                // every copied identifiable and reference is findable in the destination
                let d = inv::derive(cms);
                for j in cms.subtree_range(cni) {
                    let n = &cms.nodes[j];
                    if let Some(cp) = &n.cpath {
                        if d.paths[cp].len() == 1 && cms.model.get_element_by_path(cp).as_ref() != Some(&n.e) {
                            push("C13", format!("{kn}|copy-not-findable|{fault}"), format!("{}: copied identifiable {} at {cp} is not found by path", op.brief(), n.name));
                            break;
                        }
                    }
                    if let Some(t) = &n.ref_text {
                        let listed = cms.model.get_references_to(t).iter().filter_map(|w| w.upgrade()).any(|e| e == n.e);
                        if !listed {
                            push("C13", format!("{kn}|copied-reference-not-listed|{fault}"), format!("{}: copied reference to `{t}` is not in the referrer list", op.brief()));
                            break;
                        }
                    }
                }
            }
        }
    }
    if ok && op.k == K::MDuplicate && pc.dup_clean {
        if let Some(dm) = ret.first_model() {
            let mut v: Vec<(String, String)> = dm.serialize_files().into_iter().map(|(p, s)| (p.to_string_lossy().to_string(), s)).collect();
            v.sort();
            if v != pc.dup_file_texts {
                let detail = if v.len() != pc.dup_file_texts.len() {
                    format!("{} files vs {}", v.len(), pc.dup_file_texts.len())
                } else {
                    let i = v.iter().zip(pc.dup_file_texts.iter()).position(|(a, b)| a != b).unwrap_or(0);
                    let (mut la, mut lb) = (String::new(), String::new());
                    for (a, b) in v[i].1.lines().zip(pc.dup_file_texts[i].1.lines()) {
                        if a != b {
                            la = a.trim().to_string();
                            lb = b.trim().to_string();
                            break;
                        }
                    }
                    format!("file {}: `{la}` vs `{lb}`", v[i].0)
                };
                push("C13", format!("{kn}|duplicate-text-differs|{fault}"), format!("duplicate() serializes differently: {detail}"));
            }
        }
    }

    // ---- C10: remove_file post-condition
    if op.k == K::MRemoveFile && ret.panic.is_none() && !ret.aborted {
        if let Some(expect) = &pc.expect_tree_after_remove {
            if let Some(m) = world.model(op.a) {
                if let Some((_, ms)) = post.models.iter().find(|(_, ms)| ms.model == m) {
                    let mut got = String::new();
                    for n in &ms.nodes {
                        got.push_str(&format!("{}|{}|{}\n", n.depth, n.head, n.content_s));
                    }
                    if got != *expect {
                        let clause = if got.lines().count() < expect.lines().count() {
                            "remove-file-removed-too-much"
                        } else if got.lines().count() > expect.lines().count() {
                            "remove-file-left-elements"
                        } else {
                            "remove-file-tree-differs"
                        };
                        push("C10", format!("{kn}|{clause}|{fault}"), format!("{}: {} lines remain, {} expected", op.brief(), got.lines().count(), expect.lines().count()));
                    }
                }
            }
            for (f, before) in &pc.other_file_texts {
                match f.serialize() {
                    Ok(after) if after == *before => {}
                    Ok(after) if same_document(before, &after) => {}
                    Ok(after) => {
                        let (mut la, mut lb) = (String::new(), String::new());
                        for (a, b) in before.lines().zip(after.lines()) {
                            if a != b {
                                la = a.trim().to_string();
                                lb = b.trim().to_string();
                                break;
                            }
                        }
                        push(
                            "C10",
                            format!("{kn}|remove-file-changed-other-file|{fault}"),
                            format!("{}: the text of {} changed: `{la}` -> `{lb}` ({} -> {} lines)", op.brief(), f.filename().display(), before.lines().count(), after.lines().count()),
                        )
                    }
                    Err(e) => push("C10", format!("{kn}|remove-file-broke-other-file|{fault}"), format!("{}: {} no longer serializes: {e}", op.brief(), f.filename().display())),
                }
            }
        }
    }
}

/// do two texts of a file have the same content? (`<X></X>` and `<X/>` are the same content)
fn same_document(a: &str, b: &str) -> bool {
    let load = |t: &str| -> Option<String> {
        let m = autosar_data::AutosarModel::new();
        m.load_buffer(t.as_bytes(), "cmp.arxml", false).ok()?;
        Some(crate::obs::snapshot(&m).tree_text())
    };
    match (load(a), load(b)) {
        (Some(x), Some(y)) => x == y,
        _ => {
            // neither text loads on its own (reported separately); compare the texts with empty elements normalised
            let norm = |t: &str| -> String {
                let lines: Vec<&str> = t.lines().map(|l| l.trim()).collect();
                let mut out = String::new();
                let mut i = 0;
                while i < lines.len() {
                    let l = lines[i];
                    if i + 1 < lines.len() && l.starts_with('<') && !l.starts_with("</") && l.ends_with('>') && !l.ends_with("/>") && !l.contains("</") {
                        let name: String = l[1..].chars().take_while(|c| !c.is_whitespace() && *c != '>').collect();
                        if lines[i + 1] == format!("</{name}>") {
                            out.push_str(&format!("{}/>\n", &l[..l.len() - 1]));
                            i += 2;
                            continue;
                        }
                    }
                    out.push_str(l);
                    out.push('\n');
                    i += 1;
                }
                out
            };
            norm(a) == norm(b)
        }
    }
}

/// describe a lock relative to the operands of an operation (behavioural: no code positions, no names)
pub fn lock_target(view: &View, world: &World, op: &Op, id: u64, class: autosar_data::verif::LockClass) -> String {
    use autosar_data::verif::LockClass;
    match class {
        LockClass::Model => "model".to_string(),
        LockClass::File => "file".to_string(),
        LockClass::Other => "other".to_string(),
        LockClass::Element => {
            let found = world.elems_in_order().into_iter().find(|(_, e)| e.verif_lock_id() == id);
            match found {
                None => "element(new)".to_string(),
                Some((_, e)) => {
                    let mut loc: Option<(usize, usize)> = None;
                    for (mi, (_, ms)) in view.models.iter().enumerate() {
                        if let Some(i) = ms.by_elem.get(&e) {
                            loc = Some((mi, *i));
                        }
                    }
                    match loc {
                        None => "element(detached)".to_string(),
                        Some((mi, i)) => {
                            let ms = &view.models[mi].1;
                            let (owner, sn) = if ms.nodes[i].name == autosar_data::ElementName::ShortName && ms.nodes[i].parent.is_some() {
                                (ms.nodes[i].parent.unwrap(), true)
                            } else {
                                (i, false)
                            };
                            let rel_to = |h: H, tag: &str| -> Option<String> {
                                if let Place::Live(m2, j) = place_of(view, world, h) {
                                    if m2 != mi {
                                        return None;
                                    }
                                    if j == owner {
                                        return Some(tag.to_string());
                                    }
                                    if is_ancestor(ms, owner, j) {
                                        return Some(format!("anc({tag})"));
                                    }
                                    if is_ancestor(ms, j, owner) {
                                        return Some(format!("desc({tag})"));
                                    }
                                }
                                None
                            };
                            let mut r = None;
                            if op.k.recv() == Recv::Elem {
                                r = rel_to(op.a, "a");
                            }
                            if r.is_none() && op.k.recv_b() == Recv::Elem {
                                r = rel_to(op.b, "b");
                            }
                            let r = r.unwrap_or_else(|| if owner == 0 { "root".to_string() } else { "tree".to_string() });
                            if sn { format!("short-name({r})") } else { r }
                        }
                    }
                }
            }
        }
    }
}

/// describe the lock a ghost fault refused, relative to the operands of the operation
pub fn ghost_sig(view: &View, world: &World, op: &Op, req: &autosar_data::verif::LockRequest) -> String {
    use autosar_data::verif::{LockKind, LockMode};
    let mode = match req.mode {
        LockMode::Read => "read",
        LockMode::Write => "write",
    };
    let kind = match req.kind {
        LockKind::Try => "try",
        LockKind::Timed(_) => "timed",
        LockKind::Blocking => "blocking",
    };
    let target = lock_target(view, world, op, req.id, req.class);
    format!("{kind}-{mode}:{target}")
}

struct IterTrack {
    kind: String,
    expected: Option<Vec<String>>,
    yielded: usize,
    mutated: bool,
}

/// what an iterator opened now must yield, item by item, if the model is not modified (computed from the snapshot)
fn expected_items(view: &View, world: &World, op: &Op) -> Option<Vec<String>> {
    let eh = |e: &Element| world.elem_h(e).map(|h| format!("E{h}")).unwrap_or("E?".into());
    let node_of = |h: H| -> Option<(usize, usize)> {
        match place_of(view, world, h) {
            Place::Live(mi, ni) => Some((mi, ni)),
            _ => None,
        }
    };
    let dfs = |mi: usize, start: usize, max_depth: usize| -> Vec<String> {
        let ms = &view.models[mi].1;
        let base = ms.nodes[start].depth;
        let mut out = Vec::new();
        for j in ms.subtree_range(start) {
            let d = ms.nodes[j].depth - base;
            if max_depth == 0 || d <= max_depth {
                out.push(format!("{:?}", d.to_string()));
                out.push(eh(&ms.nodes[j].e));
            }
        }
        out
    };
    match op.name.as_str() {
        "sub" => {
            let (mi, ni) = node_of(op.a)?;
            let ms = &view.models[mi].1;
            Some(ms.nodes[ni].children.iter().map(|c| eh(&ms.nodes[*c].e)).collect())
        }
        "content" => {
            let (mi, ni) = node_of(op.a)?;
            let ms = &view.models[mi].1;
            Some(
                ms.nodes[ni]
                    .content
                    .iter()
                    .map(|c| match c {
                        crate::obs::CItem::E(j) => eh(&ms.nodes[*j].e),
                        crate::obs::CItem::C(t) => format!("{t:?}"),
                    })
                    .collect(),
            )
        }
        "dfs" => {
            let (mi, ni) = node_of(op.a)?;
            Some(dfs(mi, ni, op.n))
        }
        "mdfs" => {
            let m = world.model(op.a)?;
            let mi = view.models.iter().position(|(_, ms)| ms.model == m)?;
            Some(dfs(mi, 0, op.n))
        }
        "attrs" => {
            // the root's xsi:schemaLocation is rewritten by every file serialization (also the harness's own): not tracked
            if let Some((_, 0)) = node_of(op.a) {
                return None;
            }
            let e = world.elem(op.a)?;
            Some(e.attributes().map(|a| format!("{:?}", format!("{}={}", a.attrname.to_str(), crate::ops::cd_str(&a.content)))).collect())
        }
        _ => None,
    }
}

pub fn outcome_of(ret: &Ret) -> String {
    if let Some(e) = &ret.err {
        format!("Err({e})")
    } else if ret.panic.is_some() {
        "panic".to_string()
    } else if ret.aborted {
        "aborted".to_string()
    } else {
        "ok".to_string()
    }
}

pub fn run_history(cfg: &HistCfg) -> HistResult {
    let eng = engine();
    let mut res = HistResult::default();
    let mut rng = Rng::new(cfg.seed);
    let mut rc = RunCfg::solo(cfg.seed);
    rc.ghost = cfg.ghost.clone();
    rc.keep_trace = cfg.keep_trace;
    eng.begin_run(rc);
    eng.with_state(|st| st.harvest_nested = cfg.harvest_edges);
    eng.enter(0);
    let world = World::new();
    let mut pre = passthrough(|| View::build(&world));
    let mut findings_seen = 0usize;
    let n_ops = cfg.scripted.as_ref().map(|s| s.len()).unwrap_or(cfg.n_ops);
    let mut seen_hashes: HashMap<u64, ()> = HashMap::new();
    let mut detached_by: HashMap<H, K> = HashMap::new();
    let mut run_ghost: Option<String> = None;
    // iterators opened by the history: what they must yield as long as nothing is modified
    let mut iters: HashMap<String, IterTrack> = HashMap::new();

    for i in 0..n_ops {
        let (label, op) = match &cfg.scripted {
            Some(s) => s[i].clone(),
            None => {
                let op = passthrough(|| {
                    if i == 0 {
                        Op::new(K::MNew, H::default())
                    } else if i == 1 {
                        let mh = world.models_in_order()[0].0;
                        Op::new(K::MCreateFile, mh).name(rng.pick(crate::gen::VERSIONS)).s("f0.arxml")
                    } else {
                        let mut g = Gen { rng: &mut rng, world: &world, view: &pre, prof: &cfg.profile, max_nodes: cfg.max_nodes, focus: None };
                        g.gen_op()
                    }
                });
                (i as u32, op)
            }
        };
        if i < cfg.check_from {
            let ret = exec(&world, label, &op);
            passthrough(|| {
                world.discover(label);
                if i + 1 == cfg.check_from {
                    pre = View::build(&world);
                }
            });
            res.ops.push(OpRecord { label, op: Some(op.clone()), ret: String::new(), try_timed: 0, ghost_fired: 0, post_hash: 0, ghost: None, edges: Vec::new() });
            if ret.aborted || eng.aborting() {
                break;
            }
            continue;
        }
        let rel = passthrough(|| relation(&pre, &world, &op, &detached_by));
        let pc = passthrough(|| capture_pre(&pre, &world, &op, &cfg.props));
        let pre_hash = crate::obs::hash64(&pre.canon());
        let (tt0, gf0) = eng.with_state(|st| (st.counters.try_timed, st.counters.ghost_fired));
        let ret = exec(&world, label, &op);
        let (tt1, gf1) = eng.with_state(|st| (st.counters.try_timed, st.counters.ghost_fired));
        let fault = if ret.io_fired > 0 { "io" } else { fault_name(&cfg.ghost, gf1 - gf0) };
        let mut op_edges: Vec<String> = Vec::new();
        if cfg.harvest_edges {
            let (nested, published_below) = eng.with_state(|st| (std::mem::take(&mut st.nested), st.published_below()));
            passthrough(|| {
                for (_, h, r) in &nested {
                    // a lock created by this very call cannot be contended: no other client can reach its object yet
                    if h.lock >= published_below || r.id >= published_below {
                        continue;
                    }
                    let dir = crate::conc::direction(&pre, &world, (h.lock, h.class), (r.id, r.class));
                    if dir.ends_with("-new") {
                        // an element that is not part of a model (removed earlier): not tracked
                        continue;
                    }
                    let e = format!("{}: {:?}-{} -> {:?}-{} [{}]", op.k.name(), h.class, crate::conc::mode_s(h.mode), r.class, crate::conc::mode_s(r.mode), dir);
                    if !op_edges.contains(&e) {
                        op_edges.push(e.clone());
                    }
                    *res.edges.entry(e).or_default() += 1;
                }
            });
        }
        if gf1 > gf0 && run_ghost.is_none() {
            let req = eng.with_state(|st| st.ghost_fired_req.first().copied());
            if let Some(req) = req {
                run_ghost = Some(passthrough(|| ghost_sig(&pre, &world, &op, &req)));
            }
        }
        let post = passthrough(|| {
            world.discover(label);
            View::build(&world)
        });
        // ---- C03 (second sentence), sweep: a handle that this call took out of the tree must have lost its parent link
        // (observer call, the same `parent()` the view's own walk makes: no scheduling point, no draw from the PRNG)
        let mut kept_parent: Vec<(H, String)> = Vec::new();
        if cfg.props.c03 && !ret.aborted && ret.panic.is_none() {
            passthrough(|| {
                for h in &post.detached {
                    if detached_by.contains_key(h) {
                        continue;
                    }
                    if let Some(e) = world.elem(*h) {
                        if let Ok(Some(p)) = e.parent() {
                            kept_parent.push((*h, format!("{} below {}", e.element_name(), p.element_name())));
                        }
                    }
                }
            });
        }
        for h in &post.detached {
            detached_by.entry(*h).or_insert(op.k);
        }
        res.max_nodes_seen = res.max_nodes_seen.max(post.total_nodes());
        *res.kinds.entry(op.k.name()).or_default() += 1;
        if let Some(e) = &ret.err {
            res.errs += 1;
            *res.err_kinds.entry(format!("{}:{e}", op.k.name())).or_default() += 1;
            if ret.is_locked() {
                res.locked += 1;
            }
        }
        let h = crate::obs::hash64(&post.canon());
        if seen_hashes.insert(h, ()).is_none() {
            res.state_hashes.push(h);
        }
        let ret_canon = passthrough(|| {
            ret.canon(
                &|e| world.elem_h(e).map(|h| format!("E{h}")).unwrap_or("E?".into()),
                &|f| world.tables().file_ids.get(f).map(|h| format!("F{h}")).unwrap_or("F?".into()),
                &|m| world.tables().model_ids.get(m).map(|h| format!("M{h}")).unwrap_or("M?".into()),
            )
        });
        res.ops.push(OpRecord { label, op: Some(op.clone()), ret: ret_canon, try_timed: tt1 - tt0, ghost_fired: gf1 - gf0, post_hash: h, ghost: if gf1 > gf0 { run_ghost.clone() } else { None }, edges: op_edges });

        let mut viols: Vec<Violation> = Vec::new();
        // ---- C03: an iterator yields exactly the reference sequence as long as nothing was modified since it was opened
        if op.k == K::ItOpen && ret.shape == "Iter" {
            if let Some(crate::ops::Item::S(hs)) = ret.items.first() {
                let expected = passthrough(|| expected_items(&pre, &world, &op));
                iters.insert(hs.clone(), IterTrack { kind: op.name.clone(), expected, yielded: 0, mutated: false });
            }
        } else if op.k == K::ItNext && !ret.skipped && ret.panic.is_none() && !ret.aborted {
            if let Some(tr) = iters.get_mut(&format!("{}", op.a)) {
                let got: Option<String> = if ret.shape == "Some" {
                    ret.items.first().map(|it| match it {
                        crate::ops::Item::E(e) => world.elem_h(e).map(|h| format!("E{h}")).unwrap_or("E?".into()),
                        crate::ops::Item::S(t) => format!("{t:?}"),
                        other => format!("{other:?}"),
                    })
                } else {
                    None
                };
                if let (false, Some(exp)) = (tr.mutated, &tr.expected) {
                    let want = exp.get(tr.yielded).cloned();
                    if got != want {
                        viols.push(Violation {
                            prop: "C03".into(),
                            sig: format!("ItNext|{}|iterator-differs|{}", tr.kind, fault_name(&cfg.ghost, gf1 - gf0)),
                            detail: format!("iterator `{}` (nothing modified since it was opened) yields {:?} as item {}, the reference sequence has {:?}", tr.kind, got, tr.yielded, want),
                            at: label,
                        });
                    }
                }
                if got.is_some() {
                    tr.yielded += 1;
                }
            }
        } else if h != pre_hash {
            for tr in iters.values_mut() {
                tr.mutated = true;
            }
        }
        if let Some((h, what)) = kept_parent.first() {
            viols.push(Violation {
                prop: "C03".into(),
                sig: format!("{}|{rel}|{}|detached-handle-keeps-parent|{fault}", crate::ops::sig_kind(&op, &ret), outcome_of(&ret)),
                detail: format!("after {}: handle {h} ({what}) is no longer part of the tree but parent() still answers ({} such handle(s))", op.brief(), kept_parent.len()),
                at: label,
            });
        }
        // ---- engine findings (C12 / C15)
        let new_findings: Vec<Finding> = eng.with_state(|st| st.findings[findings_seen..].to_vec());
        findings_seen += new_findings.len();
        let kn = format!("{}|{rel}|{}", crate::ops::sig_kind(&op, &ret), outcome_of(&ret));
        let kname = op.k.name();
        for f in &new_findings {
            match f {
                Finding::SelfDeadlock { thread } => {
                    let held = thread.held.iter().rev().find(|h| h.lock == thread.wanted.id);
                    let sig = format!(
                        "{kn}|self-deadlock:{:?}-{:?}-held,{:?}-wanted",
                        thread.wanted.class,
                        held.map(|h| h.mode),
                        thread.wanted.mode
                    );
                    {
                        viols.push(Violation {
                            prop: "C12".into(),
                            sig,
                            detail: format!(
                                "{} would hang: blocking {:?} request at {} on a lock the thread holds since {}",
                                op.brief(),
                                thread.wanted.mode,
                                thread.wanted.site,
                                held.map(|h| h.site.to_string()).unwrap_or_default()
                            ),
                            at: label,
                        });
                    }
                }
                Finding::ReentrantRead { class, first, again, .. } => {
                    *res.probes.entry("reentrant-read".into()).or_default() += 1;
                    if cfg.props.c15 {
                        viols.push(Violation {
                            prop: "C15".into(),
                            sig: format!("{kname}|reentrant-read:{class:?}"),
                            detail: format!(
                                "{} re-acquires a read lock it already holds (first {first}, again {again}); with any writer queued in between this is a deadlock",
                                op.brief()
                            ),
                            at: label,
                        });
                    }
                }
                Finding::Budget { steps } => {
                    if cfg.props.c12 {
                        viols.push(Violation { prop: "C12".into(), sig: format!("{kn}|budget"), detail: format!("{} did not finish within {steps} steps", op.brief()), at: label });
                    }
                }
                Finding::Deadlock { .. } | Finding::Stuck { .. } => {
                    if cfg.props.c12 {
                        viols.push(Violation { prop: "C12".into(), sig: format!("{kn}|stuck"), detail: format!("{}: {f:?}", op.brief()), at: label });
                    }
                }
            }
        }
        if let Some(p) = &ret.panic {
            if cfg.props.c12 {
                let norm: String = p.chars().map(|c| if c.is_ascii_digit() { '#' } else { c }).take(80).collect();
                viols.push(Violation { prop: "C12".into(), sig: format!("{kn}|panic:{norm}"), detail: format!("{} panicked: {p}", op.brief()), at: label });
            }
        }
        if ret.is_locked() && matches!(cfg.ghost, Ghost::Off) && cfg.props.c12 {
            viols.push(Violation {
                prop: "C12".into(),
                sig: format!("{kn}|spurious-locked"),
                detail: format!("{} reports ParentElementLocked although no other operation is in progress", op.brief()),
                at: label,
            });
        }
        // what a panic leaves behind is unspecified; the panic itself is the finding (C12)
        let run_over = ret.aborted || eng.aborting() || ret.panic.is_some();

        if !run_over {
            passthrough(|| {
                post_checks(cfg, &pre, &post, &world, label, &op, &ret, &pc, fault, &rel, &mut viols);
                // ---- state invariants
                let sel = &cfg.props;
                {
                    // the reload differential runs after every successful modifying call, so that a breach is attributed to the call that made it
                    let reload = sel.c10 && cfg.reload_every > 0 && (op.k.is_writer() || op.k == K::MDuplicate) && !ret.is_err();
                    let o = CheckOpts { check_c03: true, check_c04: true, check_c05: true, check_c10: true, c10_reload: reload, dfs_sample: if sel.c03 { 7 } else { 0 } };
                    for (_, ms) in &post.models {
                        for v in inv::check(ms, &ms.model, &o) {
                            viols.push(Violation { prop: v.prop.to_string(), sig: format!("{kn}|{}|{fault}", v.clause), detail: format!("after {}: {}", op.brief(), v.detail), at: label });
                        }
                    }
                }
            });
        }
        // a violation observed right after the call that suffered the ghost fault is attributed to that fault;
        // the history ends there, so nothing later can be blamed on (or hidden by) the fault
        let ghost_now = gf1 > gf0;
        if let (true, Some(gs)) = (ghost_now, &run_ghost) {
            for v in viols.iter_mut() {
                if v.prop == "C11" {
                    v.sig = format!("ghost|{gs}|{}", v.sig);
                } else if v.prop != "C12" && v.prop != "C15" {
                    v.sig = format!("ghost|{gs}");
                }
            }
        }
        // violations of properties this check does not decide end the history silently: the state is no longer one
        // the property speaks about, and what follows would only be a consequence (their own checks report them)
        let (own, foreign): (Vec<Violation>, Vec<Violation>) = viols.into_iter().partition(|v| cfg.props.wants(&v.prop));
        let foreign_listed = foreign.iter().any(|v| cfg.known.iter().any(|(p, g)| *p == v.prop && crate::check::glob_match(g, &v.sig)));
        if foreign_listed {
            *res.probes.entry("history-ended-by-listed-finding-of-another-property".into()).or_default() += 1;
        } else if !foreign.is_empty() {
            *res.probes.entry("history-continued-after-unlisted-violation-of-another-property".into()).or_default() += 1;
        }
        let foreign: Vec<Violation> = if foreign_listed { foreign } else { Vec::new() };
        let mut viols = own;
        for v in viols.iter_mut() {
            // signatures and details are plain text (corrupted buffers may put control characters into names)
            v.sig = v.sig.chars().map(|c| if c.is_control() { '?' } else { c }).collect();
            v.detail = v.detail.chars().map(|c| if c.is_control() { '?' } else { c }).collect();
        }
        let stop = !viols.is_empty() || !foreign.is_empty();
        res.violations.extend(viols);
        pre = post;
        if run_over || (stop && cfg.stop_at_first) || ghost_now {
            break;
        }
    }
    eng.leave();
    let st = eng.end_run();
    res.counters = st.counters.clone();
    res.ghost_fired_at = st.ghost_fired_at.clone();
    res.log_hash = st.log_hash;
    res.sim_ns = st.clock;
    res.trace = st.trace;
    // teardown in pass-through mode (dropping the world takes no managed locks anyway)
    drop(pre);
    drop(world);
    res
}
