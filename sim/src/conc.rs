//! Multi-client scenarios under the seeded scheduler: C15 (no deadlock) and C16 (serializability).

use crate::engine::{engine, passthrough, DlThread, Finding, Ghost, Policy, RunCfg};
use crate::gen::{all_weights, Gen, Profile, View};
use crate::hist::{lock_target, outcome_of, relation};
use crate::ops::{exec, Op, Recv, Ret, ALL_KINDS, K};
use crate::rng::Rng;
use crate::world::{World, H};
use autosar_data::Element;
use serde::{Deserialize, Serialize};
use std::collections::HashMap;
use std::sync::{Arc, Mutex};

#[derive(Clone, Debug, Serialize, Deserialize)]
pub struct Scenario {
    pub setup: Vec<(u32, Op)>,
    pub clients: Vec<Vec<(u32, Op)>>,
}

#[derive(Clone, Debug, Serialize, Deserialize)]
pub struct SchedCfg {
    pub policy: String,
    pub points: Vec<u64>,
    pub prio: Vec<u32>,
    pub stall_ppm: u32,
}

impl SchedCfg {
    pub fn policy(&self) -> Policy {
        match self.policy.as_str() {
            "sticky" => Policy::Sticky { preempt_at: self.points.clone() },
            "pct" => Policy::Pct { prio: self.prio.clone(), change_at: self.points.clone() },
            _ => Policy::Uniform,
        }
    }
}

/// kinds that make sense as a concurrent client operation (everything except creating whole new models)
pub fn client_kinds() -> Vec<K> {
    // the file-system kinds are single-client business (C10 C11 C12): their locking is that of serialize_files / load_buffer
    ALL_KINDS.iter().copied().filter(|k| !matches!(k, K::MNew | K::ItNext | K::ItOpen | K::MDrop | K::MLoadFile | K::MWrite)).collect()
}

pub struct Prepared {
    pub world: Arc<World>,
    pub view: View,
    pub scenario: Scenario,
}

fn setup_profile(rng: &mut Rng) -> Profile {
    // constructive: build something to fight over
    let mut weights = crate::gen::base_weights();
    for (k, w) in weights.iter_mut() {
        match k {
            K::ERemove | K::ERemoveKind | K::MRemoveFile | K::ERemoveFromFile | K::ERemoveCData => *w = 1,
            K::MDuplicate | K::ItOpen | K::ItNext => *w = 0,
            K::ESetRef => *w *= 2,
            _ => {}
        }
    }
    let _ = rng;
    Profile {
        name: "setup",
        weights,
        stale_permille: 0,
        self_permille: 0,
        foreign_permille: 0,
        bad_permille: 10,
        load_fault_permille: 0,
        abuse_permille: 0,
        io_fault_permille: 0,
    }
}

/// the neighbourhood of a focus node: the node, its ancestors, children, SHORT-NAME, siblings
fn neighbourhood(view: &View, rng: &mut Rng) -> Vec<Element> {
    let Some((_, ms)) = view.models.first() else { return Vec::new() };
    if ms.nodes.is_empty() {
        return Vec::new();
    }
    // prefer deeper nodes
    let mut f = rng.below(ms.nodes.len());
    for _ in 0..3 {
        let c = rng.below(ms.nodes.len());
        if ms.nodes[c].depth > ms.nodes[f].depth {
            f = c;
        }
    }
    let mut out = vec![ms.nodes[f].e.clone()];
    let mut p = ms.nodes[f].parent;
    while let Some(pi) = p {
        out.push(ms.nodes[pi].e.clone());
        p = ms.nodes[pi].parent;
    }
    for c in &ms.nodes[f].children {
        out.push(ms.nodes[*c].e.clone());
    }
    if let Some(pi) = ms.nodes[f].parent {
        for c in ms.nodes[pi].children.iter().take(4) {
            out.push(ms.nodes[*c].e.clone());
        }
    }
    // a reference and its target are a natural pair of operands
    if let Some(r) = ms.nodes.iter().find(|n| n.is_ref) {
        out.push(r.e.clone());
    }
    out
}

/// generate a scenario: run a seeded set-up history (managed, fault-free), then draw the clients' calls
/// against the resulting model. Must be called inside an engine run as thread 0.
/// marker in the list of forced kinds: the client repeats the first client's call with the same operands
pub const TWIN: K = K::ItNext;

pub fn prepare(seed: u64, n_clients: usize, ops_per_client: usize, forced: &[K], setup_ops: usize, max_nodes: usize, scripted_setup: Option<&[(u32, Op)]>) -> Prepared {
    let mut rng = Rng::new(seed ^ 0x5CE7_A710);
    let world = Arc::new(World::new());
    let prof = setup_profile(&mut rng);
    let mut setup: Vec<(u32, Op)> = Vec::new();
    let mut view = passthrough(|| View::build(&world));
    let n = scripted_setup.map(|s| s.len()).unwrap_or(setup_ops);
    for i in 0..n {
        let (label, op) = match scripted_setup {
            Some(s) => s[i].clone(),
            None => {
                let op = passthrough(|| {
                    if i == 0 {
                        Op::new(K::MNew, H::default())
                    } else if i == 1 {
                        let mh = world.models_in_order()[0].0;
                        Op::new(K::MCreateFile, mh).name(rng.pick(crate::gen::VERSIONS)).s("f0.arxml")
                    } else if i == 2 && rng.chance(1, 2) {
                        // start from a loaded document half of the time
                        let mut g = Gen { rng: &mut rng, world: &world, view: &view, prof: &prof, max_nodes, focus: None };
                        g.gen_kind(K::MLoadBuffer).unwrap_or_else(|| g.gen_op())
                    } else {
                        let mut g = Gen { rng: &mut rng, world: &world, view: &view, prof: &prof, max_nodes, focus: None };
                        g.gen_op()
                    }
                });
                (i as u32, op)
            }
        };
        let ret = exec(&world, label, &op);
        view = passthrough(|| {
            world.discover(label);
            View::build(&world)
        });
        setup.push((label, op));
        if ret.aborted || engine().aborting() {
            break;
        }
    }
    // clients
    let mut clients: Vec<Vec<(u32, Op)>> = Vec::new();
    if scripted_setup.is_none() || n_clients > 0 {
        let focus = passthrough(|| neighbourhood(&view, &mut rng));
        let cprof = Profile {
            name: "clients",
            weights: all_weights().into_iter().filter(|(k, _)| !matches!(k, K::MNew | K::ItNext | K::ItOpen | K::MDuplicate | K::MDrop)).collect(),
            stale_permille: 0,
            self_permille: 0,
            foreign_permille: 0,
            bad_permille: 20,
            load_fault_permille: 0,
            abuse_permille: 0,
            io_fault_permille: 0,
        };
        for c in 0..n_clients {
            let mut ops = Vec::new();
            for j in 0..ops_per_client {
                let label = 1000 + (c as u32) * 100 + j as u32;
                let op = passthrough(|| {
                    let mut g = Gen { rng: &mut rng, world: &world, view: &view, prof: &cprof, max_nodes: max_nodes * 2, focus: Some(focus.clone()) };
                    let forced_k = if j == 0 { forced.get(c).copied() } else { None };
                    if forced_k == Some(TWIN) && c > 0 && !clients.is_empty() {
                        // two clients make the same call on the same operands (check-then-act races)
                        let first: &Vec<(u32, Op)> = &clients[0];
                        if let Some((_, o)) = first.first() {
                            return o.clone();
                        }
                    }
                    match forced_k.filter(|k| *k != TWIN) {
                        Some(k) => {
                            let mut op = None;
                            for _ in 0..6 {
                                op = g.gen_kind(k);
                                if op.is_some() {
                                    break;
                                }
                            }
                            op.unwrap_or_else(|| g.gen_op())
                        }
                        None => g.gen_op(),
                    }
                });
                ops.push((label, op));
            }
            clients.push(ops);
        }
    }
    Prepared { world, view, scenario: Scenario { setup, clients } }
}

#[derive(Clone, Debug)]
pub struct OpOutcome {
    pub client: usize,
    pub label: u32,
    pub op: Op,
    pub ret: Ret,
}

pub struct ConcResult {
    pub outcomes: Vec<OpOutcome>,
    pub findings: Vec<Finding>,
    pub panics: Vec<Option<String>>,
    pub counters: crate::engine::Counters,
    pub decisions: Vec<u32>,
    pub log_hash: u64,
    pub grant_hash: u64,
    pub sim_ns: u64,
    pub trace: Vec<crate::engine::Ev>,
    pub diverged: bool,
    /// canonical final state (None if the run was torn down)
    pub final_canon: Option<String>,
    pub final_sections: Option<[String; 5]>,
    pub ret_canon: Vec<(u32, String)>,
    pub completed: bool,
    pub interrupted_ops: Vec<u32>,
}

fn sorted_models_canon(view: &View) -> String {
    let mut v: Vec<&str> = view.models.iter().map(|(_, ms)| ms.canon.as_str()).collect();
    v.sort();
    v.join("\n=====\n")
}

/// the final state by aspect, so that a mismatch can say WHAT differs: structure and values, file sets of the
/// elements, list of files, path index, referrer lists (models in canonical order)
pub fn sections_of(view: &View) -> [String; 5] {
    let mut order: Vec<usize> = (0..view.models.len()).collect();
    order.sort_by(|a, b| view.models[*a].1.canon.cmp(&view.models[*b].1.canon));
    let mut out: [String; 5] = Default::default();
    for mi in order {
        let ms = &view.models[mi].1;
        for n in &ms.nodes {
            out[0].push_str(&format!("{}|{}|{}\n", n.depth, n.head, n.content_s));
            out[1].push_str(&format!("{}\n", n.files_s));
        }
        for f in &ms.files {
            out[2].push_str(&format!("{}|{}|{:?}\n", f.name, f.ver.filename(), f.standalone));
        }
        for (p, t) in &ms.index {
            out[3].push_str(&format!("{p} -> {t:?}\n"));
        }
        for (k, v) in &ms.referrers {
            if !v.is_empty() {
                out[4].push_str(&format!("{k} <- {v:?}\n"));
            }
        }
        for o in out.iter_mut() {
            o.push_str("=====\n");
        }
    }
    out
}

pub const SECTION_NAMES: [&str; 5] = ["tree", "file-sets", "files", "index", "referrers"];

pub fn canon_rets(view: &View, outcomes: &[OpOutcome]) -> Vec<(u32, String)> {
    let mut pos: HashMap<Element, String> = HashMap::new();
    // models are sorted by their canonical text, so that positions do not depend on creation order
    let mut order: Vec<usize> = (0..view.models.len()).collect();
    order.sort_by(|a, b| view.models[*a].1.canon.cmp(&view.models[*b].1.canon));
    for (rank, mi) in order.iter().enumerate() {
        for (i, n) in view.models[*mi].1.nodes.iter().enumerate() {
            pos.entry(n.e.clone()).or_insert_with(|| format!("m{rank}n{i}"));
        }
    }
    let mut out = Vec::new();
    for o in outcomes {
        let c = o.ret.canon(
            &|e| pos.get(e).cloned().unwrap_or_else(|| format!("detached:{}", e.element_name())),
            &|f| format!("F:{}", f.filename().display()),
            &|_m| "M".to_string(),
        );
        out.push((o.label, c));
    }
    out.sort();
    out
}

/// run a prepared scenario's clients concurrently (the engine run is already open and the set-up has been executed)
pub fn run_clients(prep: &Prepared) -> (Vec<OpOutcome>, Vec<Option<String>>) {
    let eng = engine();
    let outcomes: Arc<Mutex<Vec<OpOutcome>>> = Arc::new(Mutex::new(Vec::new()));
    let mut bodies: Vec<Box<dyn FnOnce() + Send + 'static>> = Vec::new();
    for (c, ops) in prep.scenario.clients.iter().enumerate() {
        let ops = ops.clone();
        let world = prep.world.clone();
        let outcomes = outcomes.clone();
        bodies.push(Box::new(move || {
            for (label, op) in ops {
                let ret = exec(&world, label, &op);
                let aborted = ret.aborted;
                outcomes.lock().unwrap_or_else(|e| e.into_inner()).push(OpOutcome { client: c, label, op, ret });
                if aborted {
                    break;
                }
            }
        }));
    }
    let panics = eng.run_clients(bodies);
    let o = outcomes.lock().unwrap_or_else(|e| e.into_inner()).clone();
    (o, panics)
}

pub fn run_cfg(seed: u64, n_threads: usize, sched: &SchedCfg, script: Option<Vec<u32>>, keep_trace: bool, tolerant: bool) -> RunCfg {
    RunCfg {
        seed,
        n_threads: n_threads.max(1),
        policy: sched.policy(),
        stall_ppm: sched.stall_ppm,
        ghost: Ghost::Off,
        step_budget: 3_000_000,
        keep_trace,
        script,
        tolerant,
    }
}

/// execute a complete scenario (scripted set-up, then the clients under the scheduler)
pub fn run_scenario(sc: &Scenario, seed: u64, sched: &SchedCfg, script: Option<Vec<u32>>, keep_trace: bool, tolerant: bool) -> (ConcResult, Prepared) {
    let eng = engine();
    eng.begin_run(run_cfg(seed, sc.clients.len(), sched, script, keep_trace, tolerant));
    eng.enter(0);
    let mut prep = prepare(seed, 0, 0, &[], 0, 10_000, Some(&sc.setup));
    eng.leave();
    prep.scenario.clients = sc.clients.clone();
    let res = finish_run(&prep);
    (res, prep)
}

/// run the clients of a prepared scenario and close the engine run
pub fn finish_run(prep: &Prepared) -> ConcResult {
    let eng = engine();
    let setup_findings = eng.with_state(|st| st.findings.len());
    let (outcomes, panics) = run_clients(prep);
    let st = eng.end_run();
    let findings: Vec<Finding> = st.findings[setup_findings.min(st.findings.len())..].to_vec();
    let torn = findings.iter().any(|f| !matches!(f, Finding::ReentrantRead { .. }));
    let total_ops: usize = prep.scenario.clients.iter().map(|c| c.len()).sum();
    let completed = !torn && outcomes.len() == total_ops && outcomes.iter().all(|o| !o.ret.aborted);
    let (final_canon, final_sections, ret_canon) = if completed {
        let view = View::build(&prep.world);
        (Some(sorted_models_canon(&view)), Some(sections_of(&view)), canon_rets(&view, &outcomes))
    } else {
        (None, None, Vec::new())
    };
    ConcResult {
        outcomes,
        findings,
        panics,
        counters: st.counters.clone(),
        decisions: st.decisions.clone(),
        log_hash: st.log_hash,
        grant_hash: st.grant_hash,
        sim_ns: st.clock,
        trace: st.trace,
        diverged: st.diverged,
        final_canon,
        final_sections,
        ret_canon,
        completed,
        interrupted_ops: st.interrupted_ops.clone(),
    }
}

/// the same calls one after the other, in the given order, in a fresh model (single client, fault-free)
pub fn run_sequential(sc: &Scenario, order: &[(usize, usize)], skip: &[u32]) -> Option<(String, Vec<(u32, String)>, [String; 5])> {
    let eng = engine();
    eng.begin_run(RunCfg::solo(1));
    eng.enter(0);
    let prep = prepare(1, 0, 0, &[], 0, 10_000, Some(&sc.setup));
    let mut outcomes = Vec::new();
    let mut ok = true;
    for (c, j) in order {
        let (label, op) = &sc.clients[*c][*j];
        if skip.contains(label) {
            continue;
        }
        let ret = exec(&prep.world, *label, op);
        if ret.aborted || eng.aborting() {
            ok = false;
            break;
        }
        outcomes.push(OpOutcome { client: *c, label: *label, op: op.clone(), ret });
    }
    eng.leave();
    let _ = eng.end_run();
    if !ok {
        return None;
    }
    let view = View::build(&prep.world);
    Some((sorted_models_canon(&view), canon_rets(&view, &outcomes), sections_of(&view)))
}

/// all interleavings of the clients' sequences that keep each client's program order
pub fn interleavings(lens: &[usize], cap: usize) -> Vec<Vec<(usize, usize)>> {
    fn rec(lens: &[usize], pos: &mut Vec<usize>, cur: &mut Vec<(usize, usize)>, out: &mut Vec<Vec<(usize, usize)>>, cap: usize) {
        if out.len() >= cap {
            return;
        }
        if pos.iter().zip(lens.iter()).all(|(p, l)| p == l) {
            out.push(cur.clone());
            return;
        }
        for c in 0..lens.len() {
            if pos[c] < lens[c] {
                cur.push((c, pos[c]));
                pos[c] += 1;
                rec(lens, pos, cur, out, cap);
                pos[c] -= 1;
                cur.pop();
            }
        }
    }
    let mut out = Vec::new();
    rec(lens, &mut vec![0; lens.len()], &mut Vec::new(), &mut out, cap);
    out
}

// ---------------- signatures ----------------

pub fn mode_s(m: autosar_data::verif::LockMode) -> &'static str {
    match m {
        autosar_data::verif::LockMode::Read => "R",
        autosar_data::verif::LockMode::Write => "W",
    }
}

/// where a lock's element is in the model as it was before the clients started
fn lock_node(view: &View, world: &World, id: u64) -> Option<(usize, usize)> {
    let (_, e) = world.elems_in_order().into_iter().find(|(_, e)| e.verif_lock_id() == id)?;
    for (mi, (_, ms)) in view.models.iter().enumerate() {
        if let Some(i) = ms.by_elem.get(&e) {
            return Some((mi, *i));
        }
    }
    None
}

/// direction of a nested acquisition: from the held lock's element to the wanted lock's element
pub fn direction(view: &View, world: &World, held: (u64, autosar_data::verif::LockClass), wanted: (u64, autosar_data::verif::LockClass)) -> &'static str {
    use autosar_data::verif::LockClass;
    if held.0 == wanted.0 {
        return "same";
    }
    if held.1 != LockClass::Element || wanted.1 != LockClass::Element {
        return "-";
    }
    match (lock_node(view, world, held.0), lock_node(view, world, wanted.0)) {
        (Some((mh, ih)), Some((mw, iw))) => {
            if mh != mw {
                return "other-model";
            }
            let ms = &view.models[mh].1;
            let anc = |a: usize, mut n: usize| {
                while let Some(p) = ms.nodes[n].parent {
                    if p == a {
                        return true;
                    }
                    n = p;
                }
                false
            };
            if anc(ih, iw) {
                "down"
            } else if anc(iw, ih) {
                "up"
            } else {
                "side"
            }
        }
        // an element that did not exist (or was not part of a model) when the clients started
        (Some(_), None) => "to-new",
        (None, Some(_)) => "from-new",
        (None, None) => "new-new",
    }
}

/// one edge of a deadlock cycle: what the thread's operation holds (that somebody waits for) and what it waits for.
/// Behavioural description: operation kind, lock classes and modes, direction in the tree. No code positions.
/// direction of an edge at the time of the deadlock: in the tree as it is when the run has ended (a deadlocked run is
/// unwound, nothing is undone), because earlier calls of the same clients may have moved the elements; elements that
/// are in no model then are looked up in the tree the clients started from
fn direction_at_deadlock(pre: &View, post: Option<&View>, world: &World, held: (u64, autosar_data::verif::LockClass), wanted: (u64, autosar_data::verif::LockClass)) -> &'static str {
    if let Some(p) = post {
        let d = direction(p, world, held, wanted);
        if !d.ends_with("-new") {
            return d;
        }
    }
    direction(pre, world, held, wanted)
}

pub fn edge_sig(view: &View, post: Option<&View>, world: &World, ops: &HashMap<u32, Op>, t: &DlThread) -> Option<String> {
    let op = ops.get(&t.op)?;
    if t.blocking.is_empty() {
        return None;
    }
    let mut parts: Vec<String> = t
        .blocking
        .iter()
        .map(|h| {
            format!(
                "{:?}-{} -> {:?}-{} [{}]",
                h.class,
                mode_s(h.mode),
                t.wanted.class,
                mode_s(t.wanted.mode),
                direction_at_deadlock(view, post, world, (h.lock, h.class), (t.wanted.id, t.wanted.class))
            )
        })
        .collect();
    parts.sort();
    parts.dedup();
    Some(format!("{}: {}", op.k.name(), parts.join(" & ")))
}

/// an edge that follows the crate's documented lock order (parent before child; element before model) is not a defect by itself
pub fn edge_conforms(edge: &str) -> bool {
    let Some((_, rest)) = edge.split_once(": ") else { return false };
    // locks of elements that are not (yet) part of a model cannot be contended by another client
    rest.split(" & ").all(|p| {
        p.ends_with("[down]") || (p.starts_with("Element-") && p.contains("-> Model-")) || p.ends_with("[to-new]") || p.ends_with("[from-new]") || p.ends_with("[new-new]")
    })
}

pub fn deadlock_sig(view: &View, post: Option<&View>, world: &World, sc: &Scenario, f: &Finding) -> Option<(String, String)> {
    let mut ops: HashMap<u32, Op> = HashMap::new();
    for c in &sc.clients {
        for (l, o) in c {
            ops.insert(*l, o.clone());
        }
    }
    for (l, o) in &sc.setup {
        ops.insert(*l, o.clone());
    }
    match f {
        Finding::Deadlock { threads } => {
            let mut edges: Vec<String> = threads.iter().filter_map(|t| edge_sig(view, post, world, &ops, t)).collect();
            edges.sort();
            edges.dedup();
            let detail = threads
                .iter()
                .map(|t| {
                    format!(
                        "thread {} in {} waits for {:?} {:?} lock#{} at {} while holding [{}]",
                        t.tid,
                        ops.get(&t.op).map(|o| o.brief()).unwrap_or_default(),
                        t.wanted.class,
                        t.wanted.mode,
                        t.wanted.id,
                        t.wanted.site,
                        t.held.iter().map(|h| format!("{:?} {:?} lock#{} since {}", h.class, h.mode, h.lock, h.site)).collect::<Vec<_>>().join("; ")
                    )
                })
                .collect::<Vec<_>>()
                .join(" || ");
            Some((edges.join(" + "), detail))
        }
        Finding::SelfDeadlock { thread } => {
            let op = ops.get(&thread.op)?;
            let held = thread.held.iter().rev().find(|h| h.lock == thread.wanted.id);
            Some((
                format!(
                    "{}:self-deadlock holds {:?}-{} wants {:?}-{}",
                    op.k.name(),
                    thread.wanted.class,
                    held.map(|h| mode_s(h.mode)).unwrap_or("?"),
                    thread.wanted.class,
                    mode_s(thread.wanted.mode)
                ),
                format!("{} blocks on a lock it holds itself ({})", op.brief(), thread.wanted.site),
            ))
        }
        Finding::Budget { steps } => Some(("budget".to_string(), format!("the run did not finish within {steps} steps"))),
        Finding::Stuck { detail } => Some(("stuck".to_string(), detail.clone())),
        Finding::ReentrantRead { .. } => None,
    }
}

/// relation between the operands of two concurrent calls (for C16 signatures)
pub fn pair_relation(view: &View, world: &World, a: &Op, b: &Op) -> String {
    let elems = |op: &Op| -> Vec<H> {
        let mut v = Vec::new();
        if op.k.recv() == Recv::Elem {
            v.push(op.a);
        }
        if op.k.recv_b() == Recv::Elem {
            v.push(op.b);
        }
        v
    };
    let (ea, eb) = (elems(a), elems(b));
    if ea.is_empty() || eb.is_empty() {
        return "model-level".to_string();
    }
    let Some((_, ms)) = view.models.first() else { return "?".to_string() };
    let idx = |h: H| world.elem(h).and_then(|e| ms.by_elem.get(&e).copied());
    let mut best = "unrelated";
    for x in &ea {
        for y in &eb {
            if let (Some(i), Some(j)) = (idx(*x), idx(*y)) {
                let anc = |a: usize, mut n: usize| {
                    while let Some(p) = ms.nodes[n].parent {
                        if p == a {
                            return true;
                        }
                        n = p;
                    }
                    false
                };
                let r = if i == j {
                    "same"
                } else if anc(i, j) || anc(j, i) {
                    "ancestor"
                } else if ms.nodes[i].parent == ms.nodes[j].parent {
                    "siblings"
                } else {
                    "unrelated"
                };
                let rank = |s: &str| match s {
                    "same" => 3,
                    "ancestor" => 2,
                    "siblings" => 1,
                    _ => 0,
                };
                if rank(r) > rank(best) {
                    best = r;
                }
            }
        }
    }
    best.to_string()
}

pub fn rel_of(view: &View, world: &World, op: &Op) -> String {
    relation(view, world, op, &HashMap::new())
}

pub fn outcome(ret: &Ret) -> String {
    outcome_of(ret)
}
