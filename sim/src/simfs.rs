//! Simulated disk behind the crate's file-system seam (`autosar_data::verif::FsHooks`).
//!
//! `AutosarModel::load_file` reads and `AutosarModel::write` writes through this map instead of `std::fs`. It is a stub
//! of a file system: whole-file reads and writes by path, no directories, no permissions. What it adds is faults, chosen
//! by the operation that is being executed (so they are part of the recorded history and replay with it):
//!  - a read that fails (`EIO`),
//!  - the k-th write of one `write()` call fails with "no space left": either nothing of that file reaches the disk, or a
//!    torn prefix of it does; earlier files of the same call are on disk, later ones are not attempted by the caller.
//! Every access is also a scheduling point of the engine and costs simulated time.
use std::cell::Cell;
use std::collections::BTreeMap;
use std::io;
use std::path::{Path, PathBuf};
use std::sync::{Mutex, OnceLock};

#[derive(Clone, Copy, Debug, Default, PartialEq)]
pub struct Armed {
    /// fail the next read of this thread's current call
    pub read_err: bool,
    /// fail the k-th (1-based) write of this thread's current call; 0: none
    pub fail_write: usize,
    /// the failing write leaves this many percent of the data on the disk (0: the old content stays)
    pub torn_pct: usize,
}

thread_local! {
    static ARMED: Cell<Armed> = Cell::new(Armed::default());
    static WRITES_IN_CALL: Cell<usize> = Cell::new(0);
    static FIRED: Cell<u32> = Cell::new(0);
}

#[derive(Default, Clone, Debug)]
pub struct FsCounters {
    pub reads: u64,
    pub reads_missing: u64,
    pub read_faults: u64,
    pub writes: u64,
    pub write_faults_clean: u64,
    pub write_faults_torn: u64,
    pub bytes_written: u64,
}

#[derive(Default)]
struct FsState {
    files: BTreeMap<PathBuf, Vec<u8>>,
    counters: FsCounters,
}

pub struct SimFs {
    m: Mutex<FsState>,
}

static FS: OnceLock<SimFs> = OnceLock::new();

pub fn simfs() -> &'static SimFs {
    FS.get_or_init(|| SimFs { m: Mutex::new(FsState::default()) })
}

/// install the simulated disk as the crate's file-system seam (once per process)
pub fn install() {
    let f: &'static SimFs = simfs();
    autosar_data::verif::install_fs_hooks(f);
}

/// fresh, empty disk (start of every run)
pub fn reset() {
    let mut st = simfs().m.lock().unwrap_or_else(|e| e.into_inner());
    st.files.clear();
}

/// arm the faults of the call the current thread is about to make; returns a guard-like token count of faults fired so far
pub fn arm(a: Armed) {
    ARMED.with(|c| c.set(a));
    WRITES_IN_CALL.with(|c| c.set(0));
    FIRED.with(|c| c.set(0));
}

/// disarm after the call; returns how many injected faults fired during it
pub fn disarm() -> u32 {
    ARMED.with(|c| c.set(Armed::default()));
    FIRED.with(|c| c.replace(0))
}

/// put a file on the disk behind the crate's back (the document a later `load_file` finds)
pub fn put(path: &Path, data: &[u8]) {
    let mut st = simfs().m.lock().unwrap_or_else(|e| e.into_inner());
    st.files.insert(path.to_path_buf(), data.to_vec());
}

pub fn get(path: &Path) -> Option<Vec<u8>> {
    let st = simfs().m.lock().unwrap_or_else(|e| e.into_inner());
    st.files.get(path).cloned()
}

pub fn listing() -> Vec<(PathBuf, Vec<u8>)> {
    let st = simfs().m.lock().unwrap_or_else(|e| e.into_inner());
    st.files.iter().map(|(p, d)| (p.clone(), d.clone())).collect()
}

/// counters since process start (read and reset by the workers)
pub fn take_counters() -> FsCounters {
    let mut st = simfs().m.lock().unwrap_or_else(|e| e.into_inner());
    std::mem::take(&mut st.counters)
}

impl autosar_data::verif::FsHooks for SimFs {
    fn read(&self, path: &Path) -> io::Result<Vec<u8>> {
        crate::engine::engine().io_point();
        let armed = ARMED.with(|c| c.get());
        let mut st = self.m.lock().unwrap_or_else(|e| e.into_inner());
        st.counters.reads += 1;
        if armed.read_err {
            st.counters.read_faults += 1;
            FIRED.with(|c| c.set(c.get() + 1));
            return Err(io::Error::new(io::ErrorKind::Other, "simulated read error (EIO)"));
        }
        if path.as_os_str().is_empty() {
            st.counters.reads_missing += 1;
            return Err(io::Error::new(io::ErrorKind::NotFound, "simulated: empty path"));
        }
        match st.files.get(path) {
            Some(d) => Ok(d.clone()),
            None => {
                st.counters.reads_missing += 1;
                Err(io::Error::new(io::ErrorKind::NotFound, "simulated: no such file"))
            }
        }
    }

    fn write(&self, path: &Path, contents: &[u8]) -> io::Result<()> {
        crate::engine::engine().io_point();
        let armed = ARMED.with(|c| c.get());
        let nth = WRITES_IN_CALL.with(|c| {
            c.set(c.get() + 1);
            c.get()
        });
        let mut st = self.m.lock().unwrap_or_else(|e| e.into_inner());
        st.counters.writes += 1;
        if path.as_os_str().is_empty() {
            return Err(io::Error::new(io::ErrorKind::NotFound, "simulated: empty path"));
        }
        if armed.fail_write != 0 && armed.fail_write == nth {
            FIRED.with(|c| c.set(c.get() + 1));
            if armed.torn_pct > 0 {
                let keep = contents.len() * armed.torn_pct.min(99) / 100;
                st.files.insert(path.to_path_buf(), contents[..keep].to_vec());
                st.counters.write_faults_torn += 1;
            } else {
                st.counters.write_faults_clean += 1;
            }
            return Err(io::Error::new(io::ErrorKind::Other, "simulated write error (ENOSPC)"));
        }
        st.counters.bytes_written += contents.len() as u64;
        st.files.insert(path.to_path_buf(), contents.to_vec());
        Ok(())
    }
}
