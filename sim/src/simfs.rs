//! Simulated disk behind the crate's file-system seam (`autosar_data::verif::FsHooks`).
//!
//! `AutosarModel::load_file` reads and `AutosarModel::write` writes through this map instead of `std::fs`. It is a stub
//! of a file system: whole-file reads and writes by path, no directories, no permissions. What it adds is faults, chosen
//! by the operation that is being executed (so they are part of the recorded history and replay with it):
//!  - a read that fails (`EIO`),
//!  - the write of ONE named file of a `write()` call fails with "no space left": either nothing of that file reaches the
//!    disk, or a torn prefix of it does. `AutosarModel::write` walks a `HashMap` with std's random hasher, so which of the
//!    other files it writes before it meets the failing one differs from process to process; to keep one seed one
//!    execution, a failed call leaves the other files as they were before the call (the outcome of the iteration order
//!    that meets the failing file first - one of the orders the real code can take).
//! Every access is also a scheduling point of the engine and costs simulated time.
use std::cell::Cell;
use std::collections::BTreeMap;
use std::io;
use std::path::{Path, PathBuf};
use std::sync::{Mutex, OnceLock};

#[derive(Clone, Debug, Default, PartialEq)]
pub struct Armed {
    /// fail the next read of this thread's current call
    pub read_err: bool,
    /// fail the write of this file during this thread's current call
    pub fail_name: Option<PathBuf>,
    /// the failing write leaves this many percent of the data on the disk (0: the old content stays)
    pub torn_pct: usize,
}

thread_local! {
    static ARMED: std::cell::RefCell<Armed> = std::cell::RefCell::new(Armed::default());
    /// what the files written during the current call held before it (None: did not exist)
    static JOURNAL: std::cell::RefCell<Vec<(PathBuf, Option<Vec<u8>>)>> = std::cell::RefCell::new(Vec::new());
    static FIRED: Cell<u32> = Cell::new(0);
}

#[derive(Default, Clone, Debug)]
pub struct FsCounters {
    pub reads: u64,
    pub reads_missing: u64,
    pub read_faults: u64,
    pub writes: u64,
    pub write_faults_clean: u64,
    pub write_faults_torn: u64,
    pub bytes_written: u64,
}

#[derive(Default)]
struct FsState {
    files: BTreeMap<PathBuf, Vec<u8>>,
    counters: FsCounters,
}

pub struct SimFs {
    m: Mutex<FsState>,
}

static FS: OnceLock<SimFs> = OnceLock::new();

pub fn simfs() -> &'static SimFs {
    FS.get_or_init(|| SimFs { m: Mutex::new(FsState::default()) })
}

/// install the simulated disk as the crate's file-system seam (once per process)
pub fn install() {
    let f: &'static SimFs = simfs();
    autosar_data::verif::install_fs_hooks(f);
}

/// fresh, empty disk (start of every run)
pub fn reset() {
    let mut st = simfs().m.lock().unwrap_or_else(|e| e.into_inner());
    st.files.clear();
}

/// arm the faults of the call the current thread is about to make; returns a guard-like token count of faults fired so far
pub fn arm(a: Armed) {
    ARMED.with(|c| *c.borrow_mut() = a);
    JOURNAL.with(|j| j.borrow_mut().clear());
    FIRED.with(|c| c.set(0));
}

/// disarm after the call; returns how many injected faults fired during it
pub fn disarm() -> u32 {
    ARMED.with(|c| *c.borrow_mut() = Armed::default());
    JOURNAL.with(|j| j.borrow_mut().clear());
    FIRED.with(|c| c.replace(0))
}

/// after a call that reported the injected write error: the files it wrote before it met the failing one go back to what
/// they held before the call (see the module comment)
pub fn undo_other_writes_of_failed_call() {
    let journal: Vec<(PathBuf, Option<Vec<u8>>)> = JOURNAL.with(|j| std::mem::take(&mut *j.borrow_mut()));
    let mut st = simfs().m.lock().unwrap_or_else(|e| e.into_inner());
    // first pre-image per path wins (a path written twice in one call)
    let mut seen: Vec<PathBuf> = Vec::new();
    for (path, pre) in journal {
        if seen.contains(&path) {
            continue;
        }
        seen.push(path.clone());
        match pre {
            Some(d) => {
                st.files.insert(path, d);
            }
            None => {
                st.files.remove(&path);
            }
        }
    }
}

/// put a file on the disk behind the crate's back (the document a later `load_file` finds)
pub fn put(path: &Path, data: &[u8]) {
    let mut st = simfs().m.lock().unwrap_or_else(|e| e.into_inner());
    st.files.insert(path.to_path_buf(), data.to_vec());
}

pub fn get(path: &Path) -> Option<Vec<u8>> {
    let st = simfs().m.lock().unwrap_or_else(|e| e.into_inner());
    st.files.get(path).cloned()
}

pub fn listing() -> Vec<(PathBuf, Vec<u8>)> {
    let st = simfs().m.lock().unwrap_or_else(|e| e.into_inner());
    st.files.iter().map(|(p, d)| (p.clone(), d.clone())).collect()
}

/// counters since process start (read and reset by the workers)
pub fn take_counters() -> FsCounters {
    let mut st = simfs().m.lock().unwrap_or_else(|e| e.into_inner());
    std::mem::take(&mut st.counters)
}

impl autosar_data::verif::FsHooks for SimFs {
    fn read(&self, path: &Path) -> io::Result<Vec<u8>> {
        crate::engine::engine().io_point();
        let armed = ARMED.with(|c| c.borrow().clone());
        let mut st = self.m.lock().unwrap_or_else(|e| e.into_inner());
        st.counters.reads += 1;
        if armed.read_err {
            st.counters.read_faults += 1;
            FIRED.with(|c| c.set(c.get() + 1));
            return Err(io::Error::new(io::ErrorKind::Other, "simulated read error (EIO)"));
        }
        if path.as_os_str().is_empty() {
            st.counters.reads_missing += 1;
            return Err(io::Error::new(io::ErrorKind::NotFound, "simulated: empty path"));
        }
        match st.files.get(path) {
            Some(d) => Ok(d.clone()),
            None => {
                st.counters.reads_missing += 1;
                Err(io::Error::new(io::ErrorKind::NotFound, "simulated: no such file"))
            }
        }
    }

    fn write(&self, path: &Path, contents: &[u8]) -> io::Result<()> {
        // no scheduling point and no simulated cost per file: how many files a failing write() gets to before it meets
        // the failing one depends on the random order of a HashMap; the caller (ops.rs) accounts for one access per call
        let armed = ARMED.with(|c| c.borrow().clone());
        let mut st = self.m.lock().unwrap_or_else(|e| e.into_inner());
        st.counters.writes += 1;
        if path.as_os_str().is_empty() {
            return Err(io::Error::new(io::ErrorKind::NotFound, "simulated: empty path"));
        }
        if armed.fail_name.as_deref() == Some(path) {
            FIRED.with(|c| c.set(c.get() + 1));
            if armed.torn_pct > 0 {
                let keep = contents.len() * armed.torn_pct.min(99) / 100;
                st.files.insert(path.to_path_buf(), contents[..keep].to_vec());
                st.counters.write_faults_torn += 1;
            } else {
                st.counters.write_faults_clean += 1;
            }
            return Err(io::Error::new(io::ErrorKind::Other, "simulated write error (ENOSPC)"));
        }
        let pre = st.files.get(path).cloned();
        JOURNAL.with(|j| j.borrow_mut().push((path.to_path_buf(), pre)));
        st.counters.bytes_written += contents.len() as u64;
        st.files.insert(path.to_path_buf(), contents.to_vec());
        Ok(())
    }
}
