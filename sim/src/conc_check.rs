//! Workers, coordinator, replay and minimisation for the multi-client properties C15 and C16.

use crate::check::{classify, out_dir, spawn_workers, write_evidence, CheckSpec, VRec, WorkerOut};
use crate::conc::*;
use crate::engine::{engine, Finding};
use crate::hist::Violation;
use crate::ops::K;
use crate::rng::{hash_str, Rng};
use serde::{Deserialize, Serialize};
use serde_json::json;
use std::collections::BTreeMap;
use std::path::{Path, PathBuf};
use std::time::Instant;

#[derive(Clone, Debug)]
pub struct RunPlan {
    pub n_clients: usize,
    pub ops_per_client: usize,
    pub forced: Vec<K>,
    pub setup_ops: usize,
    pub max_nodes: usize,
    pub sched: SchedCfg,
}

pub fn plan(prop: &str, seed: u64, index: u64, thorough: bool) -> RunPlan {
    let mut rng = Rng::new(seed ^ 0x91A7);
    let kinds = client_kinds();
    let n = kinds.len() as u64;
    let n_clients = if prop == "C16" {
        if thorough && rng.chance(1, 10) { 3 } else { 2 }
    } else if rng.chance(17, 20) {
        2
    } else {
        3
    };
    let ops_per_client = if prop == "C16" { 1 } else { match rng.below(10) {
        0..=6 => 1,
        7 | 8 => 2,
        _ => {
            if thorough {
                3
            } else {
                2
            }
        }
    } };
    // the pair catalogue is walked systematically by the run index; operands and schedules are drawn from the seed
    let mut forced = Vec::new();
    if rng.chance(17, 20) {
        let pi = index % (n * n);
        forced.push(kinds[(pi / n) as usize]);
        if rng.chance(3, 20) {
            forced.push(TWIN);
        } else if rng.chance(1, 2) {
            forced.push(kinds[(pi % n) as usize]);
        } else {
            // a partner that holds locks for long or takes them in an unusual order
            let adv = [K::MSort, K::ESort, K::ERemove, K::ERemoveKind, K::MDebug, K::ESetItemName, K::ECopy, K::MCreateFile, K::FSerialize, K::MSerializeFiles, K::MCheckRefs, K::MRemoveFile, K::EMove, K::MLoadBuffer, K::ESetRef, K::ESerialize, K::EDebug];
            forced.push(adv[rng.below(adv.len())]);
        }
        if n_clients == 3 {
            forced.push(kinds[rng.below(kinds.len())]);
        }
    }
    let policy = match rng.below(10) {
        0..=3 => "uniform",
        4..=7 => "sticky",
        _ => "pct",
    };
    let npoints = rng.below(5);
    let points: Vec<u64> = (0..npoints).map(|_| rng.range(1, 400)).collect();
    let prio: Vec<u32> = (0..n_clients).map(|_| rng.below(100) as u32 + 10).collect();
    let stall_ppm = if rng.chance(1, 2) { 0 } else { [2_000u32, 8_000, 25_000, 60_000][rng.below(4)] };
    RunPlan {
        n_clients,
        ops_per_client,
        forced,
        setup_ops: 6 + rng.below(if thorough { 50 } else { 30 }),
        max_nodes: [40usize, 80, 160][rng.below(3)],
        sched: SchedCfg { policy: policy.to_string(), points, prio, stall_ppm },
    }
}

pub struct OneRun {
    pub prep: Prepared,
    pub res: ConcResult,
    pub plan: RunPlan,
}

/// schedules per scenario: run index i = scenario (i / K), schedule (i % K)
pub const SCHEDULES_PER_SCENARIO: u64 = 6;

fn scenario_seed(prop: &str, base: u64, index: u64) -> (u64, u64) {
    let s = index / SCHEDULES_PER_SCENARIO;
    (crate::check::run_seed_of(base, prop, s * SCHEDULES_PER_SCENARIO), s)
}

/// execute run number `index` of a check (regenerates its scenario; used for replays)
pub fn execute(prop: &str, base: u64, index: u64, thorough: bool, keep_trace: bool) -> OneRun {
    let eng = engine();
    let (sseed, s) = scenario_seed(prop, base, index);
    let p = plan(prop, sseed, s, thorough);
    let k = index % SCHEDULES_PER_SCENARIO;
    let seed_i = crate::check::run_seed_of(base, prop, index);
    let sched_i = if k == 0 { p.sched.clone() } else { plan(prop, seed_i, s, thorough).sched };
    eng.begin_run(run_cfg(sseed, p.n_clients, &p.sched, None, keep_trace && k == 0, false));
    eng.enter(0);
    let prep = prepare(sseed, p.n_clients, p.ops_per_client, &p.forced, p.setup_ops, p.max_nodes, None);
    eng.leave();
    if k == 0 {
        let res = finish_run(&prep);
        OneRun { prep, res, plan: p }
    } else {
        let _ = eng.end_run();
        let sc = prep.scenario.clone();
        drop(prep);
        let (res, prep2) = run_scenario(&sc, seed_i, &sched_i, None, keep_trace, false);
        let mut p2 = p;
        p2.sched = sched_i;
        OneRun { prep: prep2, res, plan: p2 }
    }
}

/// C15 verdicts of a finished run
pub fn c15_violations(prep: &Prepared, res: &ConcResult) -> Vec<Violation> {
    let mut out = Vec::new();
    // the tree as the unwound run left it (only needed, and only built, when there is a finding)
    let post: Option<crate::gen::View> = if res.findings.is_empty() { None } else { Some(crate::engine::passthrough(|| crate::gen::View::build(&prep.world))) };
    for f in &res.findings {
        if let Some((sig, detail)) = deadlock_sig(&prep.view, post.as_ref(), &prep.world, &prep.scenario, f) {
            out.push(Violation { prop: "C15".into(), sig, detail, at: 0 });
        }
    }
    out
}

/// C16 verdict of a completed run: results and final state equal those of some sequential order
pub fn c16_violations(prep: &Prepared, res: &ConcResult, stats: &mut BTreeMap<String, u64>) -> Vec<Violation> {
    let mut out = Vec::new();
    let sc = &prep.scenario;
    let mut kinds: Vec<String> = sc.clients.iter().flat_map(|c| c.iter().map(|(_, o)| o.k.name())).collect();
    kinds.sort();
    let kinds_s = kinds.join("+");
    let rel = if sc.clients.len() >= 2 && !sc.clients[0].is_empty() && !sc.clients[1].is_empty() {
        pair_relation(&prep.view, &prep.world, &sc.clients[0][0].1, &sc.clients[1][0].1)
    } else {
        "-".to_string()
    };
    // a panic in a concurrent run: no sequential order panics (C12 speaks about those), so it is a mismatch of its own class
    for o in &res.outcomes {
        if let Some(p) = &o.ret.panic {
            let norm: String = p.chars().map(|c| if c.is_ascii_digit() { '#' } else { c }).take(60).collect();
            out.push(Violation { prop: "C16".into(), sig: format!("panic|{}|{norm}", o.op.k.name()), detail: format!("{} panicked in a concurrent run: {p}", o.op.brief()), at: o.label });
        }
    }
    if !res.completed || !out.is_empty() {
        return out;
    }
    let lens: Vec<usize> = sc.clients.iter().map(|c| c.len()).collect();
    let orders = interleavings(&lens, 30);
    if orders.len() >= 30 {
        *stats.entry("too-many-orders-skipped".into()).or_default() += 1;
        return out;
    }
    let skip: Vec<u32> = res.outcomes.iter().filter(|o| o.ret.is_locked()).map(|o| o.label).collect();
    let conc_final = res.final_canon.clone().unwrap_or_default();
    let conc_rets: Vec<(u32, String)> = res.ret_canon.iter().filter(|(l, _)| !skip.contains(l)).cloned().collect();
    let mut state_match = false;
    let mut full_match = false;
    let mut seq_failed = false;
    let mut first_seq: Option<(String, Vec<(u32, String)>)> = None;
    // which aspects of the final state differ from the closest sequential order
    let mut best_diff: Option<Vec<&'static str>> = None;
    for order in &orders {
        match run_sequential(sc, order, &skip) {
            Some((fin, rets, secs)) => {
                if let Some(cs) = &res.final_sections {
                    let diff: Vec<&'static str> = (0..5).filter(|i| cs[*i] != secs[*i]).map(|i| SECTION_NAMES[i]).collect();
                    if best_diff.as_ref().map(|b| diff.len() < b.len()).unwrap_or(true) {
                        best_diff = Some(diff);
                    }
                }
                if fin == conc_final {
                    state_match = true;
                    if rets == conc_rets {
                        full_match = true;
                        break;
                    }
                }
                if first_seq.is_none() {
                    first_seq = Some((fin, rets));
                }
            }
            None => seq_failed = true,
        }
    }
    *stats.entry("sequential-orders-executed".into()).or_default() += orders.len() as u64;
    if !skip.is_empty() {
        *stats.entry("runs-with-parent-locked-results".into()).or_default() += 1;
    }
    if full_match {
        return out;
    }
    if seq_failed {
        // a sequential order itself hit a C12-class defect (self-deadlock); nothing to compare against
        *stats.entry("sequential-order-aborted".into()).or_default() += 1;
        return out;
    }
    let class = if state_match { "return" } else { "state" };
    let kind_of = |label: u32| -> String {
        sc.clients.iter().flat_map(|c| c.iter()).find(|(l, _)| *l == label).map(|(_, o)| o.k.name()).unwrap_or_default()
    };
    // who is responsible: for a wrong result, the calls whose results no state-matching order explains;
    // for a wrong final state, the calls that let go of all their locks in mid-flight while another client ran
    let mut culprits: Vec<String> = Vec::new();
    if class == "return" {
        let mut best: Option<Vec<String>> = None;
        for order in &orders {
            if let Some((fin, rets, _)) = run_sequential(sc, order, &skip) {
                if fin == conc_final {
                    // the call whose result is unexplained, with the kind of result it got concurrently
                    let diff: Vec<String> = conc_rets
                        .iter()
                        .zip(rets.iter())
                        .filter(|(a, b)| a != b)
                        .map(|((l, _), _)| {
                            let oc = res.outcomes.iter().find(|o| o.label == *l).map(|o| outcome(&o.ret)).unwrap_or_default();
                            format!("{}={}", kind_of(*l), oc)
                        })
                        .collect();
                    if best.as_ref().map(|b| diff.len() < b.len()).unwrap_or(true) {
                        best = Some(diff);
                    }
                }
            }
        }
        culprits = best.unwrap_or_default();
    } else {
        for l in &res.interrupted_ops {
            let k = kind_of(*l);
            if !k.is_empty() {
                culprits.push(k);
            }
        }
    }
    culprits.sort();
    culprits.dedup();
    let culprit_s = if class == "return" {
        if culprits.is_empty() { format!("unattributed:{kinds_s}") } else { culprits.join("+") }
    } else {
        // the final state is explained by no order: the finding is identified by the kinds of calls that ran concurrently;
        // `after-timeout` marks runs in which a timed lock wait expired (a swallowed time-out can be the cause)
        let t = if res.counters.timeouts > 0 { "after-timeout:" } else { "" };
        format!("{t}{kinds_s}|differs:{}", best_diff.clone().unwrap_or_default().join("+"))
    };
    let _ = &rel;
    let mut detail = format!("clients: {}", sc.clients.iter().map(|c| c.iter().map(|(_, o)| o.brief()).collect::<Vec<_>>().join("; ")).collect::<Vec<_>>().join(" || "));
    if let Some((fin, rets)) = &first_seq {
        if class == "state" {
            let (mut la, mut lb) = (String::new(), String::new());
            for (a, b) in conc_final.lines().zip(fin.lines()) {
                if a != b {
                    la = a.to_string();
                    lb = b.to_string();
                    break;
                }
            }
            detail.push_str(&format!(" :: final state differs from every sequential order, e.g. concurrent `{la}` vs sequential `{lb}` ({} vs {} lines)", conc_final.lines().count(), fin.lines().count()));
        } else {
            for ((l, a), (_, b)) in conc_rets.iter().zip(rets.iter()) {
                if a != b {
                    detail.push_str(&format!(" :: result of call #{l} is `{}` concurrently, `{}` sequentially", a.chars().take(120).collect::<String>(), b.chars().take(120).collect::<String>()));
                    break;
                }
            }
        }
    }
    if !skip.is_empty() {
        detail.push_str(&format!(" :: calls {skip:?} returned ParentElementLocked and were left out of the sequential orders"));
    }
    out.push(Violation { prop: "C16".into(), sig: format!("{class}|{culprit_s}"), detail, at: 0 });
    out
}

pub fn conc_worker(prop: &str, thorough: bool, base: u64, idx: u64, stride: u64, total: u64, progress: &Path) -> WorkerOut {
    let mut out = WorkerOut::default();
    let t0 = Instant::now();
    let mut stats: BTreeMap<String, u64> = BTreeMap::new();
    let eng = engine();
    let n_scen = total / SCHEDULES_PER_SCENARIO;
    let mut s = idx;
    while s < n_scen {
        let first = s * SCHEDULES_PER_SCENARIO;
        let sseed = crate::check::run_seed_of(base, prop, first);
        if prop == "C16" {
            // the lock-only-neighbour differential, several histories per scenario slot
            for d in 0..4u64 {
                let dseed = crate::rng::derive(sseed, &[d, 0xD1FF]);
                for (v, ops, ghosts) in ghost_differential(dseed, thorough, &mut stats) {
                    out.add_scripted_violation(&v, dseed, &ops, &ghosts);
                }
                out.extra.entry("differential_histories".into()).and_modify(|x| *x += 1).or_insert(1);
            }
        }
        let p = plan(prop, sseed, s, thorough);
        let _ = std::fs::write(progress, format!("{sseed} {first}"));
        eng.begin_run(run_cfg(sseed, p.n_clients, &p.sched, None, false, false));
        eng.enter(0);
        let prep0 = prepare(sseed, p.n_clients, p.ops_per_client, &p.forced, p.setup_ops, p.max_nodes, None);
        eng.leave();
        let sc = prep0.scenario.clone();
        let mut prep_opt = Some(prep0);
        for k in 0..SCHEDULES_PER_SCENARIO {
            let i = first + k;
            let _ = std::fs::write(progress, format!("{sseed} {i}"));
            let (prep, res, sched) = if k == 0 {
                let prep = prep_opt.take().unwrap();
                let res = finish_run(&prep);
                (prep, res, p.sched.clone())
            } else {
                let seed_i = crate::check::run_seed_of(base, prop, i);
                let sched_i = plan(prop, seed_i, s, thorough).sched;
                let (res, prep) = run_scenario(&sc, seed_i, &sched_i, None, false, false);
                (prep, res, sched_i)
            };
            out.runs += 1;
            if sched.stall_ppm > 0 {
                out.fault_runs += 1;
            }
            out.ops += res.outcomes.len() as u64;
            out.sim_ns += res.sim_ns;
            out.add_counters(&res.counters);
            for o in &res.outcomes {
                *out.kinds.entry(o.op.k.name()).or_default() += 1;
                if o.ret.is_err() {
                    out.errs += 1;
                }
                if o.ret.is_locked() {
                    out.locked += 1;
                }
            }
            *stats.entry(format!("policy-{}", sched.policy)).or_default() += 1;
            if res.completed {
                *stats.entry("runs-completed".into()).or_default() += 1;
            } else {
                *stats.entry("runs-ended-by-a-finding".into()).or_default() += 1;
            }
            let viols = if prop == "C15" { c15_violations(&prep, &res) } else { c16_violations(&prep, &res, &mut stats) };
            for v in &viols {
                let key = format!("{}|{}", v.prop, v.sig);
                let is_new = !out.violations.contains_key(&key);
                out.add_violation(v, i);
                if is_new {
                    // for the multi-client checks the run INDEX identifies the run
                    out.violations.get_mut(&key).unwrap().first_seed = i;
                }
            }
            let shape = hash_str(&sc.clients.iter().map(|c| c.iter().map(|(_, o)| o.k.name()).collect::<Vec<_>>().join(",")).collect::<Vec<_>>().join("|"));
            if res.counters.switches > 0 {
                out.hist_hashes.push(shape ^ res.grant_hash);
            }
            // measure of reach: distinct final states of the model(s) after a completed concurrent run, size of the models
            if let Some(fc) = &res.final_canon {
                if out.state_hashes.len() < 200_000 {
                    out.state_hashes.push(hash_str(fc));
                }
            }
            if k == 0 {
                let nodes: usize = prep.view.models.iter().map(|(_, ms)| ms.nodes.len()).sum();
                out.max_nodes = out.max_nodes.max(nodes as u64);
            }
            if out.samples.len() < 2 && res.completed && k == 1 {
                out.samples.push(json!({
                    "run_index": i,
                    "policy": sched.policy,
                    "stall_ppm": sched.stall_ppm,
                    "setup_calls": sc.setup.len(),
                    "clients": sc.clients.iter().map(|c| c.iter().map(|(_, o)| o.brief()).collect::<Vec<_>>()).collect::<Vec<_>>(),
                    "results": res.ret_canon.iter().map(|(l, r)| format!("#{l}: {}", r.chars().take(80).collect::<String>())).collect::<Vec<_>>(),
                    "scheduling_steps": res.counters.steps,
                    "thread_switches": res.counters.switches,
                }));
            }
        }
        s += stride;
    }
    for (k, v) in stats {
        *out.probes.entry(k).or_default() += v;
    }
    out.wall_s = t0.elapsed().as_secs_f64();
    out
}

/// compare a scripted history whose last call suffers the given ghost fault with the same history without the fault
pub fn diff_verdict(seed: u64, thorough: bool, ops: &[(u32, crate::ops::Op)], ghosts: &[(u32, u64)], stats: &mut BTreeMap<String, u64>) -> Option<Violation> {
    let none = crate::hist::PropSel::default();
    let mut cfg1 = crate::check::scripted_cfg("C16", seed, thorough, ops.to_vec(), ghosts, false);
    cfg1.props = none.clone();
    let r = crate::hist::run_history(&cfg1);
    let i = r.ops.iter().position(|o| o.ghost.is_some())?;
    let rec = &r.ops[i];
    if rec.ret.starts_with("Err(ParentElementLocked)") {
        *stats.entry("differential-ghost-turned-call-into-parent-locked".into()).or_default() += 1;
        return None;
    }
    let mut cfg2 = crate::check::scripted_cfg("C16", seed, thorough, ops[..=i].to_vec(), &[], false);
    cfg2.props = none;
    let r2 = crate::hist::run_history(&cfg2);
    let rec2 = r2.ops.get(i)?;
    let class = if rec.ret != rec2.ret {
        "return"
    } else if rec.post_hash != rec2.post_hash {
        "state"
    } else {
        *stats.entry("differential-ghost-without-observable-effect".into()).or_default() += 1;
        return None;
    };
    let op = rec.op.as_ref()?;
    Some(Violation {
        prop: "C16".into(),
        sig: format!("ghost-differential|{}|{}|{class}", rec.ghost.clone().unwrap_or_default(), op.k.name()),
        detail: format!(
            "{} with a lock-only neighbour ({}) returned `{}`; without it `{}`{}",
            op.brief(),
            rec.ghost.clone().unwrap_or_default(),
            rec.ret.chars().take(100).collect::<String>(),
            rec2.ret.chars().take(100).collect::<String>(),
            if rec.post_hash != rec2.post_hash { "; the resulting model differs" } else { "" }
        ),
        at: rec.label,
    })
}

/// C16, lock-only neighbours: a ghost never changes state, so a call that suffers a ghost fault must either return
/// ParentElementLocked (with no effect, C11) or return and leave exactly what the same history does without the fault
pub fn ghost_differential(seed: u64, thorough: bool, stats: &mut BTreeMap<String, u64>) -> Vec<(Violation, Vec<(u32, crate::ops::Op)>, Vec<(u32, u64)>)> {
    let mut out = Vec::new();
    let mut cfg = crate::profiles::hist_cfg("C16", seed, thorough);
    cfg.props = crate::hist::PropSel::default();
    let r = crate::hist::run_history(&cfg);
    *stats.entry("differential-histories".into()).or_default() += 1;
    let Some(i) = r.ops.iter().position(|o| o.ghost.is_some()) else { return out };
    *stats.entry("differential-histories-with-a-fired-ghost".into()).or_default() += 1;
    let ops: Vec<(u32, crate::ops::Op)> = r.ops[..=i].iter().filter_map(|o| o.op.clone().map(|op| (o.label, op))).collect();
    let ghosts = r.ghost_fired_at.clone();
    if let Some(v) = diff_verdict(seed, thorough, &ops, &ghosts, stats) {
        out.push((v, ops, ghosts));
    }
    out
}

#[derive(Serialize, Deserialize, Clone, Debug)]
pub struct DiffReplay {
    pub kind: String,
    pub property: String,
    pub sig: String,
    pub detail: String,
    pub run_seed: u64,
    pub thorough: bool,
    pub ops: Vec<(u32, crate::ops::Op)>,
    pub ghost_at: Vec<(u32, u64)>,
}

pub fn make_diff_replay(v: &VRec, thorough: bool) -> Option<PathBuf> {
    let (ops, ghosts) = v.script.clone()?;
    let mut stats = BTreeMap::new();
    let mut ops = ops;
    let hit = |ops: &[(u32, crate::ops::Op)], stats: &mut BTreeMap<String, u64>| diff_verdict(v.first_seed, thorough, ops, &ghosts, stats).filter(|x| x.sig == v.sig);
    hit(&ops, &mut stats)?;
    // drop set-up calls that are not needed (the faulted call is the last one and stays)
    let mut i = 2.min(ops.len().saturating_sub(1));
    while i + 1 < ops.len() {
        let mut cand = ops.clone();
        cand.remove(i);
        if hit(&cand, &mut stats).is_some() {
            ops = cand;
        } else {
            i += 1;
        }
    }
    let fin = hit(&ops, &mut stats)?;
    let rep = DiffReplay { kind: "diff".into(), property: "C16".into(), sig: v.sig.clone(), detail: fin.detail, run_seed: v.first_seed, thorough, ops, ghost_at: ghosts };
    let dir = out_dir().join("replays").join("C16");
    let _ = std::fs::create_dir_all(&dir);
    let path = dir.join(format!("{:016x}.json", hash_str(&v.sig)));
    std::fs::write(&path, serde_json::to_string_pretty(&rep).ok()?).ok()?;
    Some(path)
}

pub fn replay_diff(rep: &DiffReplay) -> i32 {
    let mut stats = BTreeMap::new();
    println!("history of {} calls; the last one suffers the ghost fault {:?}", rep.ops.len(), rep.ghost_at);
    for (l, o) in &rep.ops {
        println!("  #{l} {}", o.brief());
    }
    match diff_verdict(rep.run_seed, rep.thorough, &rep.ops, &rep.ghost_at, &mut stats) {
        Some(v) => {
            println!("  !! {} {} :: {}", v.prop, v.sig, v.detail);
            if v.sig == rep.sig {
                println!("VIOLATION property=C16 reproduced exactly");
                1
            } else {
                println!("a different violation occurred");
                1
            }
        }
        None => {
            println!("the recorded violation did not occur");
            0
        }
    }
}

// ---------------- replay ----------------

#[derive(Serialize, Deserialize, Clone, Debug)]
pub struct ConcReplay {
    pub kind: String,
    pub property: String,
    pub sig: String,
    pub detail: String,
    pub run_seed: u64,
    pub scenario: Scenario,
    pub sched: SchedCfg,
    pub decisions: Vec<u32>,
    pub log_hash: u64,
    pub trace: Vec<String>,
}

fn verdicts(prop: &str, prep: &Prepared, res: &ConcResult) -> Vec<Violation> {
    let mut stats = BTreeMap::new();
    if prop == "C15" { c15_violations(prep, res) } else { c16_violations(prep, res, &mut stats) }
}

/// does the scenario show the signature under some schedule? returns the decisions of the first schedule that does
fn search(prop: &str, sig: &str, sc: &Scenario, sched: &SchedCfg, seeds: &[u64], script: Option<&Vec<u32>>) -> Option<(u64, Vec<u32>, SchedCfg)> {
    if let Some(s) = script {
        let (res, prep) = run_scenario(sc, seeds[0], sched, Some(s.clone()), false, true);
        if verdicts(prop, &prep, &res).iter().any(|v| v.sig == sig) {
            return Some((seeds[0], res.decisions.clone(), sched.clone()));
        }
    }
    for s in seeds {
        for pol in [sched.clone(), SchedCfg { policy: "uniform".into(), points: vec![], prio: vec![], stall_ppm: sched.stall_ppm }] {
            let (res, prep) = run_scenario(sc, *s, &pol, None, false, false);
            if verdicts(prop, &prep, &res).iter().any(|v| v.sig == sig) {
                return Some((*s, res.decisions.clone(), pol));
            }
        }
    }
    None
}

pub fn make_conc_replay(prop: &str, sig: &str, index: u64, thorough: bool) -> Option<PathBuf> {
    let base = crate::check::base_seed();
    let seed = crate::check::run_seed_of(base, prop, index);
    let run = execute(prop, base, index, thorough, false);
    let v = verdicts(prop, &run.prep, &run.res).into_iter().find(|v| v.sig == sig)?;
    let sc = run.prep.scenario.clone();
    let sched = run.plan.sched.clone();
    let decisions = run.res.decisions.clone();
    drop(run);
    finalize_conc_replay(prop, sig, &v.detail, sc, sched, decisions, seed, &format!("run {index}"))
}

/// minimise a scenario that shows `sig` under the given decisions, verify the replay and write the file
#[allow(clippy::too_many_arguments)]
pub fn finalize_conc_replay(prop: &str, sig: &str, detail0: &str, sc: Scenario, sched: SchedCfg, decisions: Vec<u32>, seed: u64, origin: &str) -> Option<PathBuf> {
    let mut sc = sc;
    let mut sched = sched;
    let mut decisions = decisions;
    let mut seed_used = seed;
    let index = origin;
    let v = Violation { prop: prop.into(), sig: sig.into(), detail: detail0.into(), at: 0 };
    // the scripted form must reproduce it
    {
        let (res, prep) = run_scenario(&sc, seed_used, &sched, Some(decisions.clone()), false, false);
        if !verdicts(prop, &prep, &res).iter().any(|x| x.sig == sig) {
            eprintln!("HARNESS: {prop} {sig} at {index} does not reproduce from its recorded scenario and decisions");
            return None;
        }
    }
    // minimise the set-up (each candidate is searched again under a few schedules), then the clients' later calls
    let seeds: Vec<u64> = (0..12).map(|k| crate::rng::derive(seed, &[k, 77])).collect();
    let t0 = Instant::now();
    let mut chunk = (sc.setup.len() / 2).max(1);
    while t0.elapsed().as_secs() < 40 {
        let mut i = 2.min(sc.setup.len());
        let mut removed = false;
        while i < sc.setup.len() && t0.elapsed().as_secs() < 40 {
            let end = (i + chunk).min(sc.setup.len());
            let mut cand = sc.clone();
            cand.setup.drain(i..end);
            if let Some((s, d, p)) = search(prop, sig, &cand, &sched, &seeds, Some(&decisions)) {
                sc = cand;
                seed_used = s;
                decisions = d;
                sched = p;
                removed = true;
            } else {
                i = end;
            }
        }
        if chunk == 1 && !removed {
            break;
        }
        chunk = (chunk / 2).max(1);
    }
    for c in 0..sc.clients.len() {
        while sc.clients[c].len() > 1 {
            let mut cand = sc.clone();
            cand.clients[c].pop();
            if let Some((s, d, p)) = search(prop, sig, &cand, &sched, &seeds, Some(&decisions)) {
                sc = cand;
                seed_used = s;
                decisions = d;
                sched = p;
            } else {
                break;
            }
        }
    }
    // remove faults: try without stalls
    if sched.stall_ppm > 0 {
        let mut p2 = sched.clone();
        p2.stall_ppm = 0;
        if let Some((s, d, p)) = search(prop, sig, &sc, &p2, &seeds, None) {
            seed_used = s;
            decisions = d;
            sched = p;
        }
    }
    // final: replay twice, scripted and strict
    let (r1, prep1) = run_scenario(&sc, seed_used, &sched, Some(decisions.clone()), true, false);
    let (r2, _) = run_scenario(&sc, seed_used, &sched, Some(decisions.clone()), false, false);
    let hit = verdicts(prop, &prep1, &r1).into_iter().find(|x| x.sig == sig);
    if hit.is_none() || r1.log_hash != r2.log_hash || r1.diverged {
        eprintln!("HARNESS: minimised replay of {prop} {sig} is not stable (hit={}, {:x} vs {:x}, diverged={})", hit.is_some(), r1.log_hash, r2.log_hash, r1.diverged);
        return None;
    }
    let rep = ConcReplay {
        kind: "conc".into(),
        property: prop.into(),
        sig: sig.into(),
        detail: hit.map(|h| h.detail).unwrap_or(v.detail),
        run_seed: seed_used,
        scenario: sc,
        sched,
        decisions,
        log_hash: r1.log_hash,
        trace: crate::check::fmt_trace(&r1.trace).into_iter().rev().take(300).rev().collect(),
    };
    let dir = out_dir().join("replays").join(prop);
    let _ = std::fs::create_dir_all(&dir);
    let path = dir.join(format!("{:016x}.json", hash_str(sig)));
    std::fs::write(&path, serde_json::to_string_pretty(&rep).ok()?).ok()?;
    Some(path)
}

pub fn replay_conc(rep: &ConcReplay) -> i32 {
    let (res, prep) = run_scenario(&rep.scenario, rep.run_seed, &rep.sched, Some(rep.decisions.clone()), true, false);
    println!("set-up: {} calls", rep.scenario.setup.len());
    for (l, o) in &rep.scenario.setup {
        println!("  #{l} {}", o.brief());
    }
    for (c, ops) in rep.scenario.clients.iter().enumerate() {
        println!("client {c}: {}", ops.iter().map(|(l, o)| format!("#{l} {}", o.brief())).collect::<Vec<_>>().join("; "));
    }
    for line in crate::check::fmt_trace(&res.trace).iter().rev().take(60).rev() {
        println!("    {line}");
    }
    for f in &res.findings {
        if !matches!(f, Finding::ReentrantRead { .. }) {
            println!("  finding: {f:?}");
        }
    }
    let vs = verdicts(&rep.property, &prep, &res);
    for v in &vs {
        println!("  !! {} {} :: {}", v.prop, v.sig, v.detail);
    }
    if res.diverged {
        println!("the recorded decisions do not fit this build (divergence)");
        return 2;
    }
    if vs.iter().any(|v| v.sig == rep.sig) {
        if res.log_hash == rep.log_hash {
            println!("VIOLATION property={} reproduced exactly (log hash {:016x})", rep.property, res.log_hash);
        } else {
            println!("violation reproduced; event log differs from the recorded one");
        }
        1
    } else {
        println!("the recorded violation did not occur");
        0
    }
}

/// Triage aid (not a verdict): run the scenario of a replay file with REAL threads on the REAL parking_lot locks
/// (simulator switched off) many times; a deadlock shows as threads that never finish (watchdog).
pub fn real_replay(rep: &ConcReplay, iterations: usize) -> i32 {
    use std::sync::{Arc, Barrier};
    println!("scenario: {}", rep.scenario.clients.iter().map(|c| c.iter().map(|(_, o)| o.brief()).collect::<Vec<_>>().join("; ")).collect::<Vec<_>>().join(" || "));
    for it in 0..iterations {
        // the set-up runs in pass-through mode on this thread
        let prep = crate::engine::passthrough(|| prepare(1, 0, 0, &[], 0, 10_000, Some(&rep.scenario.setup)));
        let world = prep.world.clone();
        let n = rep.scenario.clients.len();
        let barrier = Arc::new(Barrier::new(n));
        let (tx, rx) = std::sync::mpsc::channel();
        for ops in rep.scenario.clients.iter().cloned() {
            let world = world.clone();
            let barrier = barrier.clone();
            let tx = tx.clone();
            std::thread::spawn(move || {
                barrier.wait();
                for (label, op) in ops {
                    let _ = crate::ops::exec(&world, label, &op);
                }
                let _ = tx.send(());
            });
        }
        for _ in 0..n {
            if rx.recv_timeout(std::time::Duration::from_secs(3)).is_err() {
                println!("iteration {it}: the client threads did not finish within 3 s on the real locks: deadlock confirmed");
                // the blocked threads cannot be joined
                std::process::exit(1);
            }
        }
    }
    println!("{iterations} iterations finished; no hang on the real locks (the interleaving is not controlled here)");
    0
}

pub fn runs_for(prop: &str, thorough: bool) -> u64 {
    if let Ok(v) = std::env::var("VERIF_RUNS") {
        if let Ok(n) = v.parse() {
            return n;
        }
    }
    let quick = if prop == "C15" { 180_000 } else { 150_000 };
    if thorough { quick * 12 } else { quick }
}

pub fn check_conc(prop: &str, thorough: bool) -> i32 {
    let base = crate::check::base_seed();
    println!("VERIF_SEED={base} property={prop} tier={}", if thorough { "thorough" } else { "quick" });
    let t0 = Instant::now();
    let _ = std::fs::remove_dir_all(out_dir().join("replays").join(prop));
    let rule = if prop == "C15" {
        "one evaluation = one scenario (seeded set-up history, then 2-3 client threads with 1-3 public calls each; the first call of each client walks the catalogue of operation-kind pairs by run index, operands are drawn from a shared neighbourhood) executed under one seeded schedule (uniform / run-until-blocked with k pre-emptions / priority change points, half of the runs with stalls); a run is distinct and non-trivial if it had at least one thread switch and its (scenario shape, order of lock grants) is new"
    } else {
        "one evaluation = one scenario as for C15, executed under one seeded schedule and, if it completed, compared (canonical results and final state) with every program-order-preserving sequential order of the same calls executed by the real code in a fresh model; distinct and non-trivial as for C15"
    };
    let spec = CheckSpec {
        prop,
        thorough,
        worker_cmd: "conc-worker",
        total: runs_for(prop, thorough),
        level: "exploration",
        rule,
        assumptions: vec![
            "threads are switched only at lock acquisitions and call boundaries; all shared data of the crate is behind these locks".into(),
            "the lock model follows parking_lot 0.12.5 RawRwLock (writer bit taken while readers remain, readers refused while it is set, free choice among admissible waiters); the real lock is taken after every grant and a disagreement ends the check with exit 2".into(),
            "sampling of schedules, not enumeration: a clean batch is evidence, not proof".into(),
            "known findings are matched per lock-order edge (C15) or per (operation kinds, relation, mismatch class) (C16)".into(),
        ],
    };
    let (total, crashes) = spawn_workers(&spec, base);
    let mut exit = 0;
    for (seed, msg) in &crashes {
        eprintln!("worker crash: {msg} (seed {seed})");
        exit = 2;
    }
    let make = |v: &VRec| if v.script.is_some() { make_diff_replay(v, thorough) } else { make_conc_replay(prop, &v.sig, v.first_seed, thorough) };
    let (e2, known_seen, n_viol) = if prop == "C15" { classify_edges(&total, &make) } else { classify(prop, &total, &make) };
    if e2 == 1 || (e2 != 0 && exit == 0) {
        exit = e2;
    }
    let mut exit = exit;
    let mut extra = json!({});
    let mut n_viol = n_viol;
    let mut known_seen = known_seen;
    if prop == "C15" {
        // second part: lock-order edges harvested from single-client histories; an edge against the documented order that is
        // not a listed finding is turned into a concrete deadlock by a directed schedule search (or noted as unconfirmed)
        let hruns = if thorough { 600_000 } else { 48_000 };
        let hspec = CheckSpec { prop: "C15", thorough, worker_cmd: "hist-worker", total: std::env::var("VERIF_RUNS").ok().and_then(|v| v.parse().ok()).unwrap_or(hruns), level: "exploration", rule: "", assumptions: vec![] };
        let (htotal, hcrashes) = spawn_workers(&hspec, base);
        for (seed, msg) in &hcrashes {
            eprintln!("worker crash: {msg} (seed {seed})");
            exit = 2;
        }
        let known = crate::check::load_known();
        let baseline = load_baseline();
        let mut edges_total = 0;
        let mut edges_against = 0;
        let mut unconfirmed: Vec<String> = Vec::new();
        let mut listed_seen: Vec<String> = Vec::new();
        for v in htotal.violations.values() {
            if v.prop != "C15E" {
                continue;
            }
            edges_total += 1;
            if edge_conforms(&v.sig) {
                if baseline.iter().any(|b| *b == v.sig) {
                    continue;
                }
            } else {
                edges_against += 1;
                if let Some(k) = crate::check::is_known(&known, "C15", &v.sig) {
                    if !listed_seen.contains(&k.sig) {
                        listed_seen.push(k.sig.clone());
                    }
                    continue;
                }
            }
            match confirm_edge(&v.sig, v.first_seed, thorough) {
                Some(path) => {
                    n_viol += 1;
                    println!("VIOLATION property=C15 replay={}", path.display());
                    println!("  lock-order edge not listed as a known finding: {}", v.sig);
                    println!("  seen {} times in single-client histories (e.g. run seed {}); the replay is a concrete deadlock found by a directed schedule search", v.count, v.first_seed);
                    exit = 1;
                }
                None => {
                    println!("NOTE: potential deadlock edge `{}` (seen {} times, e.g. run seed {}) is not a listed finding; no deadlock was constructed for it within the budget", v.sig, v.count, v.first_seed);
                    unconfirmed.push(v.sig.clone());
                }
            }
        }
        for k in &listed_seen {
            if !known_seen.iter().any(|x| x.starts_with(k.as_str())) {
                known_seen.push(format!("{k} (lock-order edge seen in single-client histories)"));
            }
        }
        extra = json!({
            "lock_order_harvest": {
                "single_client_histories": htotal.runs,
                "calls": htotal.ops,
                "distinct_lock_order_edges": edges_total,
                "edges_against_the_documented_order": edges_against,
                "of_these_listed_as_known_findings": listed_seen.len(),
                "unlisted_and_not_confirmed_by_directed_search": unconfirmed,
            }
        });
    }
    if prop == "C16" {
        extra = json!({ "lock_only_neighbour_differential": total.extra });
    }
    let wall = t0.elapsed().as_secs_f64();
    write_evidence(&spec, base, &total, wall, n_viol, &known_seen, extra);
    println!(
        "{prop}: {} runs ({} with stalls), {} client calls, {} thread switches, {} stalls fired, {} timed waits expired, {} violations, {} known findings seen, {:.1}s",
        total.runs, total.fault_runs, total.ops, total.switches, total.stalls, total.timeouts, n_viol, known_seen.len(), wall
    );
    exit
}

/// calls that hold locks for long or take them in an order that can close a cycle with the given call
fn partner_candidates(prep: &Prepared, op: &crate::ops::Op) -> Vec<crate::ops::Op> {
    use crate::ops::{Op, Recv};
    let mut out: Vec<Op> = Vec::new();
    let Some((mh, ms)) = prep.view.models.first() else { return out };
    let mut push = |o: Op| {
        if !out.contains(&o) {
            out.push(o);
        }
    };
    let node_of = |h: crate::world::H| prep.world.elem(h).and_then(|e| ms.by_elem.get(&e).copied());
    let h_of = |i: usize| prep.world.elem_h(&ms.nodes[i].e);
    let mut elems = Vec::new();
    if op.k.recv() == Recv::Elem {
        elems.push(op.a);
    }
    if op.k.recv_b() == Recv::Elem {
        elems.push(op.b);
    }
    if elems.is_empty() {
        // a call on the model or a file: elements all over the tree are potential meeting points
        let mut picked = 0;
        for (i, n) in ms.nodes.iter().enumerate() {
            if (n.identifiable || n.is_ref || i == 0) && picked < 6 {
                if let Some(h) = h_of(i) {
                    elems.push(h);
                    picked += 1;
                }
            }
        }
    }
    for x in elems {
        let mut cur = node_of(x);
        while let Some(i) = cur {
            if let Some(h) = h_of(i) {
                push(Op::new(K::ESort, h));
                push(Op::new(K::ESetComment, h).s("c"));
                push(Op::new(K::ESerialize, h));
                if ms.nodes[i].identifiable {
                    push(Op::new(K::ESetItemName, h).s("zz9"));
                    push(Op::new(K::ECreateNamed, h).name("AR-PACKAGE").s("zz8"));
                }
                if ms.nodes[i].name == autosar_data::ElementName::ArPackages {
                    push(Op::new(K::ECreateNamed, h).name("AR-PACKAGE").s("zz7"));
                }
                if ms.nodes[i].name == autosar_data::ElementName::Elements {
                    push(Op::new(K::ECreateNamed, h).name("SYSTEM-SIGNAL").s("zz6"));
                }
                if let Some(p) = ms.nodes[i].parent {
                    if let Some(ph) = h_of(p) {
                        push(Op::new(K::ERemove, ph).b(h));
                    }
                }
            }
            cur = ms.nodes[i].parent;
        }
    }
    push(Op::new(K::MSort, *mh));
    push(Op::new(K::MDebug, *mh));
    push(Op::new(K::MCheckRefs, *mh));
    push(Op::new(K::MSerializeFiles, *mh));
    push(Op::new(K::MCreateFile, *mh).name(ms.files.first().map(|f| f.ver.filename()).unwrap_or("AUTOSAR_00050.xsd")).s("partner.arxml"));
    if let Some((fh, _)) = prep.view.live_files.first() {
        push(Op::new(K::FSerialize, *fh));
        push(Op::new(K::FModel, *fh));
        push(Op::new(K::MRemoveFile, *mh).b(*fh));
    }
    // the same call with its element operands exchanged (two moves or copies in opposite directions)
    if op.k.recv() == Recv::Elem && op.k.recv_b() == Recv::Elem {
        if let (Some(ia), Some(ib)) = (node_of(op.a), node_of(op.b)) {
            if let (Some(pb), Some(_)) = (ms.nodes[ib].parent, ms.nodes[ia].parent) {
                if let (Some(pbh), Some(ah)) = (h_of(pb), h_of(ia)) {
                    let mut o = op.clone();
                    o.a = pbh;
                    o.b = ah;
                    push(o);
                }
            }
        }
        let mut o = op.clone();
        std::mem::swap(&mut o.a, &mut o.b);
        push(o);
    }
    push(op.clone());
    out.truncate(80);
    out
}

/// try to turn a lock-order edge seen in a single-client history into a concrete deadlock: the history up to the call is
/// the set-up, the call is one client, a partner call is the other; schedules are searched
pub fn confirm_edge(edge: &str, seed: u64, thorough: bool) -> Option<PathBuf> {
    let eng = engine();
    let cfg = crate::profiles::hist_cfg("C15", seed, thorough);
    let r = crate::hist::run_history(&cfg);
    let i = r.ops.iter().position(|o| o.edges.iter().any(|e| e == edge))?;
    let setup: Vec<(u32, crate::ops::Op)> = r.ops[..i].iter().filter_map(|o| o.op.clone().map(|op| (o.label, op))).collect();
    let opa = r.ops[i].op.clone()?;
    eng.begin_run(crate::engine::RunCfg::solo(seed));
    eng.enter(0);
    let prep = prepare(seed, 0, 0, &[], 0, 10_000, Some(&setup));
    eng.leave();
    let _ = eng.end_run();
    let cands = partner_candidates(&prep, &opa);
    drop(prep);
    let mut rng = Rng::new(seed ^ 0xC0F1);
    let t0 = Instant::now();
    for p in &cands {
        let sc = Scenario { setup: setup.clone(), clients: vec![vec![(1000, opa.clone())], vec![(1100, p.clone())]] };
        for k in 0..14u64 {
            if t0.elapsed().as_secs() > 60 {
                return None;
            }
            let sched = SchedCfg {
                policy: if k % 4 == 0 { "uniform".into() } else { "sticky".into() },
                points: (0..1 + k % 3).map(|_| rng.range(1, 120)).collect(),
                prio: vec![],
                stall_ppm: 0,
            };
            let seed_k = crate::rng::derive(seed, &[k, 0xED6E]);
            let (res, prep2) = run_scenario(&sc, seed_k, &sched, None, false, false);
            for v in c15_violations(&prep2, &res) {
                if v.sig.split(" + ").any(|e| e == edge) {
                    let decisions = res.decisions.clone();
                    drop(prep2);
                    return finalize_conc_replay("C15", &v.sig, &v.detail, sc, sched, decisions, seed_k, &format!("directed search for edge `{edge}`"));
                }
            }
        }
    }
    None
}

/// lock-order edges that follow the documented order and exist at the pinned commit (known/lock_order_baseline.txt).
/// They are not defects, but a NEW one can close a cycle with a listed finding, so it is treated like any unlisted edge.
pub fn load_baseline() -> Vec<String> {
    let p = crate::check::verif_dir().join("known").join("lock_order_baseline.txt");
    std::fs::read_to_string(p).map(|t| t.lines().map(|l| l.trim().to_string()).filter(|l| !l.is_empty() && !l.starts_with('#')).collect()).unwrap_or_default()
}

/// is this edge accounted for (a listed finding, or an order-following edge of the baseline)?
pub fn edge_accounted(known: &[crate::check::Known], baseline: &[String], e: &str) -> bool {
    // locks of elements that were not part of a model when the clients started (new or detached objects): another
    // client can hold them only through a handle to a detached element; such edges are not tracked
    if e.ends_with("-new]") {
        return true;
    }
    if edge_conforms(e) {
        baseline.iter().any(|b| b == e)
    } else {
        crate::check::is_known(known, "C15", e).is_some()
    }
}

/// C15: a deadlock is known if every lock-order edge that takes part in it is a listed finding
fn classify_edges(total: &WorkerOut, make_replay: &dyn Fn(&VRec) -> Option<PathBuf>) -> (i32, Vec<String>, usize) {
    let known = crate::check::load_known();
    let baseline = load_baseline();
    let mut known_seen: BTreeMap<String, (u64, String)> = BTreeMap::new();
    let mut exit = 0;
    let mut n_viol = 0;
    let mut reported_edges: Vec<String> = Vec::new();
    for v in total.violations.values() {
        if v.prop != "C15" {
            continue;
        }
        // a thread's edge may name several held locks ("Op: h1 -> w & h2 -> w"): each is an edge of its own
        let mut edges_owned: Vec<String> = Vec::new();
        for e in v.sig.split(" + ") {
            match e.split_once(": ") {
                Some((opk, rest)) => {
                    for part in rest.split(" & ") {
                        edges_owned.push(format!("{opk}: {part}"));
                    }
                }
                None => edges_owned.push(e.to_string()),
            }
        }
        let edges: Vec<&str> = edges_owned.iter().map(|s| s.as_str()).collect();
        // an edge is accounted for if it is a listed finding or an order-following edge of the baseline
        let unknown: Vec<&str> = edges.iter().copied().filter(|e| !edge_accounted(&known, &baseline, e)).collect();

        for e in &edges {
            if let Some(k) = crate::check::is_known(&known, "C15", e) {
                let ent = known_seen.entry(k.sig.clone()).or_insert((0, k.what.clone()));
                ent.0 += v.count;
            }
        }
        if unknown.is_empty() {
            continue;
        }
        // report each unknown edge once
        if unknown.iter().all(|e| reported_edges.contains(&e.to_string())) {
            continue;
        }
        for e in &unknown {
            reported_edges.push(e.to_string());
        }
        n_viol += 1;
        match make_replay(v) {
            Some(path) => {
                println!("VIOLATION property=C15 replay={}", path.display());
                println!("  deadlock: {}", v.sig);
                println!("  edges not listed as known findings: {}", unknown.join(" + "));
                println!("  first seen at run index {} ({} occurrences): {}", v.first_seed, v.count, v.detail.chars().take(600).collect::<String>());
                exit = 1;
            }
            None => {
                eprintln!("HARNESS ERROR: could not build a replay for C15 {} (run index {})", v.sig, v.first_seed);
                if exit == 0 {
                    exit = 2;
                }
            }
        }
    }
    let mut lines = Vec::new();
    for (sig, (count, what)) in &known_seen {
        println!("KNOWN-FINDING: property=C15 sig={sig} :: {what}");
        lines.push(format!("{sig} (in {count} deadlocks)"));
    }
    (exit, lines, n_viol)
}
