//! Handle tables: every model, file and element an operation can name.
//!
//! A handle `H(label, k)` is "the k-th new object that became known after operation `label`".
//! Labels are stable when other operations are dropped from a scenario (minimisation).

use autosar_data::{ArxmlFile, AutosarModel, Element};
use serde::{Deserialize, Serialize};
use std::collections::HashMap;
use std::sync::Mutex;

#[derive(Clone, Copy, Debug, Serialize, Deserialize, PartialEq, Eq, Hash, PartialOrd, Ord, Default)]
pub struct H(pub u32, pub u32);

impl std::fmt::Display for H {
    fn fmt(&self, f: &mut std::fmt::Formatter<'_>) -> std::fmt::Result {
        write!(f, "{}.{}", self.0, self.1)
    }
}

pub type ItemIter = Box<dyn Iterator<Item = crate::ops::Item> + Send>;

#[derive(Default)]
pub struct Tables {
    pub elems: HashMap<H, Element>,
    pub elem_ids: HashMap<Element, H>,
    pub elem_order: Vec<H>,
    pub files: HashMap<H, ArxmlFile>,
    pub file_ids: HashMap<ArxmlFile, H>,
    pub file_order: Vec<H>,
    pub models: HashMap<H, AutosarModel>,
    pub model_ids: HashMap<AutosarModel, H>,
    pub model_order: Vec<H>,
    pub iters: HashMap<H, Option<ItemIter>>,
    pub iter_order: Vec<H>,
    next_k: HashMap<u32, u32>,
}

impl Tables {
    fn fresh(&mut self, label: u32) -> H {
        let k = self.next_k.entry(label).or_insert(0);
        let h = H(label, *k);
        *k += 1;
        h
    }

    pub fn reg_elem(&mut self, label: u32, e: &Element) -> H {
        if let Some(h) = self.elem_ids.get(e) {
            return *h;
        }
        let h = self.fresh(label);
        self.elems.insert(h, e.clone());
        self.elem_ids.insert(e.clone(), h);
        self.elem_order.push(h);
        h
    }

    pub fn reg_file(&mut self, label: u32, f: &ArxmlFile) -> H {
        if let Some(h) = self.file_ids.get(f) {
            return *h;
        }
        let h = self.fresh(label);
        self.files.insert(h, f.clone());
        self.file_ids.insert(f.clone(), h);
        self.file_order.push(h);
        h
    }

    pub fn reg_model(&mut self, label: u32, m: &AutosarModel) -> H {
        if let Some(h) = self.model_ids.get(m) {
            return *h;
        }
        let h = self.fresh(label);
        self.models.insert(h, m.clone());
        self.model_ids.insert(m.clone(), h);
        self.model_order.push(h);
        h
    }

    pub fn reg_iter(&mut self, label: u32, it: ItemIter) -> H {
        let h = self.fresh(label);
        self.iters.insert(h, Some(it));
        self.iter_order.push(h);
        h
    }
}

#[derive(Default)]
pub struct World {
    pub t: Mutex<Tables>,
}

impl World {
    pub fn new() -> Self {
        Self::default()
    }

    pub fn tables(&self) -> std::sync::MutexGuard<'_, Tables> {
        self.t.lock().unwrap_or_else(|e| e.into_inner())
    }

    pub fn elem(&self, h: H) -> Option<Element> {
        self.tables().elems.get(&h).cloned()
    }

    pub fn file(&self, h: H) -> Option<ArxmlFile> {
        self.tables().files.get(&h).cloned()
    }

    pub fn model(&self, h: H) -> Option<AutosarModel> {
        self.tables().models.get(&h).cloned()
    }

    pub fn elem_h(&self, e: &Element) -> Option<H> {
        self.tables().elem_ids.get(e).copied()
    }

    pub fn models_in_order(&self) -> Vec<(H, AutosarModel)> {
        let t = self.tables();
        t.model_order.iter().map(|h| (*h, t.models[h].clone())).collect()
    }

    pub fn files_in_order(&self) -> Vec<(H, ArxmlFile)> {
        let t = self.tables();
        t.file_order.iter().map(|h| (*h, t.files[h].clone())).collect()
    }

    pub fn elems_in_order(&self) -> Vec<(H, Element)> {
        let t = self.tables();
        t.elem_order.iter().map(|h| (*h, t.elems[h].clone())).collect()
    }

    /// register everything that is reachable from the known models (call only in pass-through mode, at quiescence)
    pub fn discover(&self, label: u32) {
        let models = self.models_in_order();
        for (_, m) in models {
            let files: Vec<ArxmlFile> = m.files().collect();
            let mut elems = Vec::new();
            // walk content() only; do not rely on the crate's own dfs iterator
            let mut stack = vec![m.root_element()];
            while let Some(e) = stack.pop() {
                let subs: Vec<Element> = e.content().filter_map(|c| c.unwrap_element()).collect();
                elems.push(e);
                for s in subs.into_iter().rev() {
                    stack.push(s);
                }
                if elems.len() > 200_000 {
                    break;
                }
            }
            let mut t = self.tables();
            for f in &files {
                t.reg_file(label, f);
            }
            for e in &elems {
                t.reg_elem(label, e);
            }
        }
    }
}
