//! verif-sim: deterministic simulation with fault injection for autosar-data.
//!
//! usage: verif-sim check <property> <quick|thorough> | worker ... | replay <file> | self <what>

mod engine;
mod ops;
mod rng;
mod world;

use std::any::Any;

pub fn panic_message(payload: &Box<dyn Any + Send>) -> String {
    if let Some(s) = payload.downcast_ref::<&str>() {
        s.to_string()
    } else if let Some(s) = payload.downcast_ref::<String>() {
        s.clone()
    } else {
        "non-string panic payload".to_string()
    }
}

thread_local! {
    pub static LAST_PANIC_LOC: std::cell::RefCell<String> = const { std::cell::RefCell::new(String::new()) };
}

fn install_panic_hook() {
    std::panic::set_hook(Box::new(|info| {
        // managed threads: keep quiet, remember where it happened (the message travels with the payload)
        let loc = info.location().map(|l| format!("{}:{}", l.file(), l.line())).unwrap_or_default();
        LAST_PANIC_LOC.with(|l| *l.borrow_mut() = loc.clone());
        if engine::current_tid().is_none() && std::env::var("VERIF_QUIET_PANICS").is_err() {
            eprintln!("panic outside a managed thread at {loc}: {info}");
        }
    }));
}

fn smoke() {
    use engine::*;
    use ops::*;
    use std::sync::Arc;
    use world::*;
    let eng = engine();
    let mut dl = 0;
    let mut total_steps = 0;
    let t0 = std::time::Instant::now();
    let runs = 2000;
    for seed in 0..runs {
        let mut cfg = RunCfg::solo(seed);
        cfg.n_threads = 2;
        eng.begin_run(cfg.clone());
        eng.enter(0);
        let w = Arc::new(World::new());
        let r = exec(&w, 0, &Op::new(K::MNew, H::default()));
        let m = w.tables().reg_model(0, &r.first_model().unwrap());
        let _f = exec(&w, 1, &Op::new(K::MCreateFile, m).name("AUTOSAR_00050.xsd").s("a.arxml"));
        let root = exec(&w, 2, &Op::new(K::MRoot, m));
        let root_h = w.elem_h(&root.first_elem().unwrap()).unwrap();
        let pk = exec(&w, 3, &Op::new(K::ECreate, root_h).name("AR-PACKAGES"));
        let pk_h = w.elem_h(&pk.first_elem().unwrap()).unwrap();
        let p = exec(&w, 4, &Op::new(K::ECreateNamed, pk_h).name("AR-PACKAGE").s("Pkg"));
        let p_h = w.elem_h(&p.first_elem().unwrap()).unwrap();
        eng.leave();
        let w1 = w.clone();
        let w2 = w.clone();
        let res = eng.run_clients(vec![
            Box::new(move || {
                exec(&w1, 10, &Op::new(K::ESerialize, p_h));
            }),
            Box::new(move || {
                exec(&w2, 11, &Op::new(K::ESetComment, p_h).s("hello"));
            }),
        ]);
        let st = eng.end_run();
        total_steps += st.counters.steps;
        if st.findings.iter().any(|f| matches!(f, Finding::Deadlock { .. })) {
            dl += 1;
            if dl == 1 {
                println!("first deadlock at seed {seed}: {:#?}", st.findings);
            }
        }
        assert!(res.iter().all(|r| r.is_none()), "{res:?}");
    }
    println!("smoke: {runs} runs, {dl} deadlocks, {total_steps} steps, {:?}", t0.elapsed());
}

fn main() {
    install_panic_hook();
    engine::install();
    let args: Vec<String> = std::env::args().collect();
    match args.get(1).map(|s| s.as_str()) {
        Some("smoke") => smoke(),
        _ => {
            eprintln!("usage: verif-sim check <property> <quick|thorough> | replay <file> | self <what>");
            std::process::exit(2);
        }
    }
}
