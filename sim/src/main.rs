//! verif-sim: deterministic simulation with fault injection for autosar-data.
//!
//! usage: verif-sim check <property> <quick|thorough> | worker ... | replay <file> | self <what>

mod check;
mod conc;
mod conc_check;
mod engine;
mod gen;
mod hist;
mod inv;
mod lockmodel;
mod obs;
mod ops;
mod profiles;
mod rng;
mod simfs;
mod world;

use std::any::Any;

pub fn panic_message(payload: &Box<dyn Any + Send>) -> String {
    if let Some(s) = payload.downcast_ref::<&str>() {
        s.to_string()
    } else if let Some(s) = payload.downcast_ref::<String>() {
        s.clone()
    } else {
        "non-string panic payload".to_string()
    }
}

thread_local! {
    pub static LAST_PANIC_LOC: std::cell::RefCell<String> = const { std::cell::RefCell::new(String::new()) };
}

fn install_panic_hook() {
    std::panic::set_hook(Box::new(|info| {
        // managed threads: keep quiet, remember where it happened (the message travels with the payload)
        let loc = info.location().map(|l| format!("{}:{}", l.file(), l.line())).unwrap_or_default();
        LAST_PANIC_LOC.with(|l| *l.borrow_mut() = loc.clone());
        if std::env::var("VERIF_SHOW_PANICS").is_ok() || engine::current_tid().is_none() && std::env::var("VERIF_QUIET_PANICS").is_err() {
            eprintln!("panic outside a managed thread at {loc}: {info}");
        }
    }));
}

fn smoke() {
    use engine::*;
    use ops::*;
    use std::sync::Arc;
    use world::*;
    let eng = engine();
    let mut dl = 0;
    let mut total_steps = 0;
    let t0 = std::time::Instant::now();
    let runs = 2000;
    for seed in 0..runs {
        let mut cfg = RunCfg::solo(seed);
        cfg.n_threads = 2;
        eng.begin_run(cfg.clone());
        eng.enter(0);
        let w = Arc::new(World::new());
        let r = exec(&w, 0, &Op::new(K::MNew, H::default()));
        let m = w.tables().reg_model(0, &r.first_model().unwrap());
        let _f = exec(&w, 1, &Op::new(K::MCreateFile, m).name("AUTOSAR_00050.xsd").s("a.arxml"));
        let root = exec(&w, 2, &Op::new(K::MRoot, m));
        let root_h = w.elem_h(&root.first_elem().unwrap()).unwrap();
        let pk = exec(&w, 3, &Op::new(K::ECreate, root_h).name("AR-PACKAGES"));
        let pk_h = w.elem_h(&pk.first_elem().unwrap()).unwrap();
        let p = exec(&w, 4, &Op::new(K::ECreateNamed, pk_h).name("AR-PACKAGE").s("Pkg"));
        let p_h = w.elem_h(&p.first_elem().unwrap()).unwrap();
        eng.leave();
        let w1 = w.clone();
        let w2 = w.clone();
        let res = eng.run_clients(vec![
            Box::new(move || {
                exec(&w1, 10, &Op::new(K::ESerialize, p_h));
            }),
            Box::new(move || {
                exec(&w2, 11, &Op::new(K::ESetComment, p_h).s("hello"));
            }),
        ]);
        let st = eng.end_run();
        total_steps += st.counters.steps;
        if st.findings.iter().any(|f| matches!(f, Finding::Deadlock { .. })) {
            dl += 1;
            if dl == 1 {
                println!("first deadlock at seed {seed}: {:#?}", st.findings);
            }
        }
        assert!(res.iter().all(|r| r.is_none()), "{res:?}");
    }
    println!("smoke: {runs} runs, {dl} deadlocks, {total_steps} steps, {:?}", t0.elapsed());
}

fn main() {
    install_panic_hook();
    engine::install();
    simfs::install();
    let args: Vec<String> = std::env::args().collect();
    match args.get(1).map(|s| s.as_str()) {
        Some("smoke") => smoke(),
        Some("check") => {
            let prop = args.get(2).cloned().unwrap_or_default();
            let thorough = args.get(3).map(|s| s == "thorough").unwrap_or(false) || std::env::var("VERIF_TIER").map(|t| t == "thorough").unwrap_or(false) && args.get(3).is_none();
            let code = match prop.as_str() {
                "C03" | "C04" | "C05" | "C06" | "C10" | "C11" | "C12" | "C13" => check::check_hist(&prop, thorough),
                "C15" | "C16" => conc_check::check_conc(&prop, thorough),
                _ => {
                    eprintln!("unknown or unclaimed property {prop}");
                    2
                }
            };
            std::process::exit(code);
        }
        Some("hist-worker") => {
            let prop = &args[2];
            let thorough = args[3] == "thorough";
            let base: u64 = args[4].parse().unwrap();
            let idx: u64 = args[5].parse().unwrap();
            let stride: u64 = args[6].parse().unwrap();
            let total: u64 = args[7].parse().unwrap();
            let out = check::hist_worker(prop, thorough, base, idx, stride, total, std::path::Path::new(&args[8]));
            println!("{}", serde_json::to_string(&out).unwrap());
        }
        Some("conc-worker") => {
            let prop = &args[2];
            let thorough = args[3] == "thorough";
            let base: u64 = args[4].parse().unwrap();
            let idx: u64 = args[5].parse().unwrap();
            let stride: u64 = args[6].parse().unwrap();
            let total: u64 = args[7].parse().unwrap();
            let out = conc_check::conc_worker(prop, thorough, base, idx, stride, total, std::path::Path::new(&args[8]));
            println!("{}", serde_json::to_string(&out).unwrap());
        }
        Some("det-dump") => {
            // det-dump <prop> <first> <n>: one line per run with everything that must be a function of the seed
            let prop = args[2].clone();
            let first: u64 = args[3].parse().unwrap();
            let n: u64 = args[4].parse().unwrap();
            let base = check::base_seed();
            for i in first..first + n {
                if prop == "C15" || prop == "C16" {
                    let run = conc_check::execute(&prop, base, i, false, false);
                    let v = if prop == "C15" { conc_check::c15_violations(&run.prep, &run.res) } else { conc_check::c16_violations(&run.prep, &run.res, &mut Default::default()) };
                    println!("{i} log={:016x} grants={:016x} steps={} decisions={} final={:016x} viol={:?}", run.res.log_hash, run.res.grant_hash, run.res.counters.steps, run.res.decisions.len(), rng::hash_str(run.res.final_canon.as_deref().unwrap_or("")), v.iter().map(|x| x.sig.clone()).collect::<Vec<_>>());
                } else {
                    let seed = check::run_seed_of(base, &prop, i);
                    let cfg = profiles::hist_cfg(&prop, seed, false);
                    let r = hist::run_history(&cfg);
                    let mut h = 0u64;
                    for o in &r.ops {
                        h = h.rotate_left(5) ^ rng::hash_str(&o.ret) ^ o.post_hash;
                    }
                    println!("{i} log={:016x} ops={} hist={h:016x} simns={} ghosts={:?} viol={:?}", r.log_hash, r.ops.len(), r.sim_ns, r.ghost_fired_at, r.violations.iter().map(|x| x.sig.clone()).collect::<Vec<_>>());
                }
            }
        }
        Some("self") => {
            let what = args.get(2).map(|s| s.as_str()).unwrap_or("");
            match what {
                "harvest-edges" => {
                    // single-client histories with the lock-order harvest on: prints every edge against the lock order
                    let runs: u64 = args.get(3).and_then(|s| s.parse().ok()).unwrap_or(40_000);
                    let spec = check::CheckSpec { prop: "C15", thorough: false, worker_cmd: "hist-worker", total: runs, level: "exploration", rule: "", assumptions: vec![] };
                    let (total, crashes) = check::spawn_workers(&spec, check::base_seed());
                    for c in crashes {
                        eprintln!("crash: {c:?}");
                    }
                    let mut n = 0;
                    for v in total.violations.values() {
                        if v.prop == "C15E" && (!conc::edge_conforms(&v.sig) || std::env::var("HARVEST_ALL").is_ok()) {
                            println!("{:8} {}", v.count, v.sig);
                            n += 1;
                        }
                    }
                    eprintln!("{} runs, {n} edges against the lock order", total.runs);
                }
                "confirm-edges" => {
                    // for every harvested edge against the lock order: try to produce a concrete deadlock
                    let runs: u64 = args.get(3).and_then(|s| s.parse().ok()).unwrap_or(40_000);
                    let spec = check::CheckSpec { prop: "C15", thorough: false, worker_cmd: "hist-worker", total: runs, level: "exploration", rule: "", assumptions: vec![] };
                    let (total, _) = check::spawn_workers(&spec, check::base_seed());
                    let (mut yes, mut no) = (0, 0);
                    for v in total.violations.values() {
                        if v.prop == "C15E" && !conc::edge_conforms(&v.sig) {
                            let t0 = std::time::Instant::now();
                            match conc_check::confirm_edge(&v.sig, v.first_seed, false) {
                                Some(p) => {
                                    yes += 1;
                                    println!("confirmed   {} ({:.1}s) {}", v.sig, t0.elapsed().as_secs_f64(), p.display());
                                }
                                None => {
                                    no += 1;
                                    println!("unconfirmed {} ({:.1}s)", v.sig, t0.elapsed().as_secs_f64());
                                }
                            }
                        }
                    }
                    eprintln!("{yes} confirmed, {no} unconfirmed");
                }
                "lockmodel" => std::process::exit(lockmodel::run()),
                "real-replay" => {
                    let path = args.get(3).cloned().unwrap_or_default();
                    let n: usize = args.get(4).and_then(|s| s.parse().ok()).unwrap_or(20_000);
                    let text = std::fs::read_to_string(&path).unwrap_or_default();
                    match serde_json::from_str::<conc_check::ConcReplay>(&text) {
                        Ok(rep) => std::process::exit(conc_check::real_replay(&rep, n)),
                        Err(e) => {
                            eprintln!("not a multi-client replay file: {e}");
                            std::process::exit(2);
                        }
                    }
                }
                "determinism" => {
                    let n: u64 = args.get(3).and_then(|s| s.parse().ok()).unwrap_or(3000);
                    let exe = std::env::current_exe().unwrap();
                    let mut bad = 0;
                    for prop in ["C04", "C10", "C11", "C12", "C15", "C16"] {
                        // several processes, different chunkings: every line must be identical
                        let dump = |first: u64, cnt: u64| -> Vec<String> {
                            let out = std::process::Command::new(&exe).args(["det-dump", prop, &first.to_string(), &cnt.to_string()]).env("VERIF_QUIET_PANICS", "1").output().expect("spawn");
                            String::from_utf8_lossy(&out.stdout).lines().map(|l| l.to_string()).collect()
                        };
                        let a = dump(0, n);
                        let mut b = Vec::new();
                        let chunk = (n / 7).max(1);
                        let mut f = 0;
                        let mut handles = Vec::new();
                        while f < n {
                            let c = chunk.min(n - f);
                            let exe2 = exe.clone();
                            let prop2 = prop.to_string();
                            handles.push(std::thread::spawn(move || {
                                let out = std::process::Command::new(&exe2).args(["det-dump", &prop2, &f.to_string(), &c.to_string()]).env("VERIF_QUIET_PANICS", "1").output().expect("spawn");
                                String::from_utf8_lossy(&out.stdout).lines().map(|l| l.to_string()).collect::<Vec<String>>()
                            }));
                            f += c;
                        }
                        for h in handles {
                            b.extend(h.join().unwrap());
                        }
                        let diffs = a.iter().zip(b.iter()).filter(|(x, y)| x != y).count() + a.len().abs_diff(b.len());
                        println!("determinism {prop}: {} runs compared across processes, {diffs} differences", a.len());
                        if diffs > 0 {
                            for (x, y) in a.iter().zip(b.iter()).filter(|(x, y)| x != y).take(3) {
                                println!("  A: {x}\n  B: {y}");
                            }
                            bad += 1;
                        }
                    }
                    std::process::exit(if bad == 0 { 0 } else { 2 });
                }
                _ => {
                    eprintln!("usage: self determinism [n]");
                    std::process::exit(2);
                }
            }
        }
        Some("deep-worker") => {
            // deep-worker <depth> <op>: build a chain of nested SDG elements through the API and run one recursive call on it.
            // The process dies (stack overflow = SIGSEGV/SIGABRT) or prints "done".
            use autosar_data::{AutosarModel, AutosarVersion, ElementName};
            let depth: usize = args[2].parse().unwrap();
            let op = args[3].as_str();
            let model = AutosarModel::new();
            let file = model.create_file("deep.arxml", AutosarVersion::LATEST).unwrap();
            let sdgs = model.root_element().create_sub_element(ElementName::AdminData).unwrap().create_sub_element(ElementName::Sdgs).unwrap();
            let top = sdgs.create_sub_element(ElementName::Sdg).unwrap();
            let mut cur = top.clone();
            for _ in 0..depth {
                cur = cur.create_sub_element(ElementName::Sdg).unwrap();
            }
            match op {
                "element-serialize" => {
                    // without indentation blow-up: serialize the innermost quarter only is not what we want; take the top
                    let _ = top.serialize().len();
                }
                "sort" => model.sort(),
                "duplicate" => {
                    let d = model.duplicate();
                    std::mem::forget(d);
                }
                "copy" => {
                    let c = sdgs.create_copied_sub_element(&top);
                    std::mem::forget(c);
                }
                "remove" => {
                    sdgs.remove_sub_element(top.clone()).unwrap();
                }
                "dfs" => {
                    let _ = model.elements_dfs().count();
                }
                "cmp" => {
                    let other = sdgs.create_sub_element(ElementName::Sdg).unwrap();
                    let _ = top.cmp(&other);
                    let _ = top.cmp(&top.clone());
                }
                "check-compat" => {
                    let _ = file.check_version_compatibility(AutosarVersion::Autosar_4_0_1).0.len();
                }
                "path" => {
                    let _ = cur.xml_path().len();
                    let _ = cur.model().is_ok();
                    let _ = cur.min_version().is_ok();
                }
                "remove-file" => model.remove_file(&file),
                _ => {}
            }
            // dropping a deep chain of Arcs recurses as well; that is Rust's drop glue, not a call of the crate - skip it
            std::mem::forget(model);
            std::mem::forget(top);
            std::mem::forget(cur);
            std::mem::forget(sdgs);
            println!("done");
        }
        Some("replay") => {
            let path = args.get(2).cloned().unwrap_or_default();
            let text = match std::fs::read_to_string(&path) {
                Ok(t) => t,
                Err(e) => {
                    eprintln!("cannot read {path}: {e}");
                    std::process::exit(2);
                }
            };
            let v: serde_json::Value = serde_json::from_str(&text).unwrap_or_default();
            let code = match v.get("kind").and_then(|k| k.as_str()) {
                Some("hist") => match serde_json::from_value::<check::HistReplay>(v) {
                    Ok(rep) => check::replay_hist(&rep),
                    Err(e) => {
                        eprintln!("bad replay file: {e}");
                        2
                    }
                },
                Some("deep") => match serde_json::from_value::<check::DeepReplay>(v) {
                    Ok(rep) => check::replay_deep(&rep),
                    Err(e) => {
                        eprintln!("bad replay file: {e}");
                        2
                    }
                },
                Some("diff") => match serde_json::from_value::<conc_check::DiffReplay>(v) {
                    Ok(rep) => conc_check::replay_diff(&rep),
                    Err(e) => {
                        eprintln!("bad replay file: {e}");
                        2
                    }
                },
                Some("conc") => match serde_json::from_value::<conc_check::ConcReplay>(v) {
                    Ok(rep) => conc_check::replay_conc(&rep),
                    Err(e) => {
                        eprintln!("bad replay file: {e}");
                        2
                    }
                },
                _ => {
                    eprintln!("unknown replay kind");
                    2
                }
            };
            std::process::exit(code);
        }
        Some("hist") => {
            // hist <props|all> <first seed> <runs> [ghost ppm]
            let props = args.get(2).map(|s| s.as_str()).unwrap_or("all");
            let first: u64 = args.get(3).and_then(|s| s.parse().ok()).unwrap_or(1);
            let runs: u64 = args.get(4).and_then(|s| s.parse().ok()).unwrap_or(100);
            let ppm: u32 = args.get(5).and_then(|s| s.parse().ok()).unwrap_or(0);
            let mut sigs: std::collections::BTreeMap<String, (u64, String, u64)> = Default::default();
            let t0 = std::time::Instant::now();
            let mut nops = 0;
            let mut nerr = 0;
            let mut maxn = 0;
            let mut kinds: std::collections::BTreeMap<String, u64> = Default::default();
            let mut edges: std::collections::BTreeMap<String, u64> = Default::default();
            let mut errk: std::collections::BTreeMap<String, u64> = Default::default();
            let show = std::env::var("SHOW").is_ok();
            for seed in first..first + runs {
                let prof = gen::Profile {
                    name: "explore",
                    weights: if props == "C12" { gen::all_weights() } else { gen::base_weights() },
                    stale_permille: 40,
                    self_permille: 30,
                    foreign_permille: 40,
                    bad_permille: 60,
                    load_fault_permille: 300,
                    abuse_permille: 30,
                    io_fault_permille: 0,
                };
                let cfg = hist::HistCfg {
                    seed,
                    profile: prof,
                    n_ops: 10 + (seed % 50) as usize,
                    max_nodes: 150,
                    ghost: if ppm > 0 { engine::Ghost::Random { ppm, max: 1 } } else { engine::Ghost::Off },
                    props: if props == "all" { hist::PropSel::all() } else { hist::PropSel::only(props) },
                    scripted: None,
                    keep_trace: false,
                    reload_every: 0,
                    stop_at_first: true,
                    harvest_edges: std::env::var("EDGES").is_ok(),
                    check_from: 0,
                    known: check::known_patterns(),
                };
                let r = hist::run_history(&cfg);
                if show {
                    for o in &r.ops {
                        println!("  #{} {}  ->  {}", o.label, o.op.as_ref().map(|x| x.brief()).unwrap_or_default(), o.ret.chars().take(200).collect::<String>());
                    }
                    for v in &r.violations {
                        println!("  !! {} {} :: {}", v.prop, v.sig, v.detail);
                    }
                }
                nops += r.ops.len();
                nerr += r.errs;
                maxn = maxn.max(r.max_nodes_seen);
                for (k, v) in &r.kinds { *kinds.entry(k.clone()).or_default() += v; }
                for (k, v) in &r.edges { *edges.entry(k.clone()).or_default() += v; }
                for (k, v) in &r.err_kinds { *errk.entry(k.clone()).or_default() += v; }
                for v in &r.violations {
                    let e = sigs.entry(format!("{} {}", v.prop, v.sig)).or_insert((0, v.detail.clone(), seed));
                    e.0 += 1;
                }
            }
            println!("{runs} histories, {nops} ops, {nerr} errors, max nodes {maxn}, {:?}", t0.elapsed());
            if !edges.is_empty() {
                let nc: Vec<_> = edges.iter().filter(|(e, _)| !conc::edge_conforms(e)).collect();
                println!("{} edges, {} against the lock order:", edges.len(), nc.len());
                for (e, n) in nc {
                    println!("  {n:8} {e}");
                }
            }
            if std::env::var("VERBOSE").is_ok() {
                println!("kinds: {kinds:?}");
                println!("errors: {errk:?}");
            }
            for (s, (n, d, seed)) in &sigs {
                println!("{n:6} {s}\n         seed {seed}: {d}");
            }
        }
        _ => {
            eprintln!("usage: verif-sim check <property> <quick|thorough> | replay <file> | self <what>");
            std::process::exit(2);
        }
    }
}
