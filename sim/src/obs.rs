//! Canonical, pointer-free observation of a model, built only from `content()`, `attributes()`,
//! `comment()`, `file_membership()`, `files()`, `identifiable_elements()` and `get_references_to()`.
//! Must be called in pass-through mode at a quiescent point.

use crate::ops::cd_str;
use autosar_data::{ArxmlFile, AutosarModel, AutosarVersion, CharacterData, Element, ElementContent, ElementName};
use std::collections::HashMap;

#[derive(Clone, Debug, PartialEq, Eq, PartialOrd, Ord)]
pub enum IdxT {
    Node(usize),
    Detached,
    Dead,
}

pub struct Node {
    pub e: Element,
    pub parent: Option<usize>,
    pub depth: usize,
    /// index in the parent's content list
    pub pos: usize,
    pub name: ElementName,
    /// first content item is a SHORT-NAME element and the type is named
    pub identifiable: bool,
    pub item_name: Option<String>,
    /// path computed from the SHORT-NAME texts of the identifiable ancestors
    pub cpath: Option<String>,
    pub is_ref: bool,
    pub ref_text: Option<String>,
    pub content: Vec<CItem>,
    pub children: Vec<usize>,
    /// local file membership (files of the element itself), as indices into `files`, or usize::MAX for unknown / dead files
    pub local: Vec<usize>,
    /// what the API reports: Ok((local?, set size)) or the error name
    pub fm_api: Result<(bool, Vec<usize>), String>,
    /// effective membership computed by the harness: local if non-empty, else the parent's
    pub eff: Vec<usize>,
    pub line: String,
    /// `name|attributes|comment`
    pub head: String,
    pub files_s: String,
    pub content_s: String,
}

#[derive(Clone, Debug)]
pub enum CItem {
    E(usize),
    C(String),
}

pub struct FileInfo {
    pub f: ArxmlFile,
    pub name: String,
    pub ver: AutosarVersion,
    pub standalone: Option<bool>,
}

pub struct ModelSnap {
    pub model: AutosarModel,
    pub nodes: Vec<Node>,
    pub by_elem: HashMap<Element, usize>,
    /// elements that appear more than once in the walk (second and later occurrences are not expanded)
    pub dup_nodes: Vec<(usize, usize)>,
    pub files: Vec<FileInfo>,
    pub index: Vec<(String, IdxT)>,
    pub ref_keys: Vec<String>,
    pub referrers: Vec<(String, Vec<IdxT>)>,
    pub canon: String,
    pub truncated: bool,
}

pub const MAX_NODES: usize = 50_000;

fn file_idx(files: &[FileInfo], f: &ArxmlFile) -> usize {
    files.iter().position(|fi| fi.f == *f).unwrap_or(usize::MAX)
}

pub fn snapshot(model: &AutosarModel) -> ModelSnap {
    let files: Vec<FileInfo> = model
        .files()
        .take(1000)
        .map(|f| FileInfo {
            name: f.filename().to_string_lossy().to_string(),
            ver: f.version(),
            standalone: f.xml_standalone(),
            f,
        })
        .collect();

    let mut nodes: Vec<Node> = Vec::new();
    let mut by_elem: HashMap<Element, usize> = HashMap::new();
    let mut dup_nodes = Vec::new();
    let mut truncated = false;
    // iterative pre-order walk over content()
    // stack entries: (element, parent index, depth, position in parent)
    let mut stack: Vec<(Element, Option<usize>, usize, usize)> = vec![(model.root_element(), None, 0, 0)];
    while let Some((e, parent, depth, pos)) = stack.pop() {
        if nodes.len() >= MAX_NODES {
            truncated = true;
            break;
        }
        let idx = nodes.len();
        if let Some(prev) = by_elem.get(&e) {
            dup_nodes.push((*prev, parent.unwrap_or(usize::MAX)));
            // still record it as a node so that positions stay meaningful, but do not expand it again
        } else {
            by_elem.insert(e.clone(), idx);
        }
        let expand = by_elem.get(&e) == Some(&idx);
        let name = e.element_name();
        let etype = e.element_type();
        let raw_content: Vec<ElementContent> = if expand { e.content().take(MAX_NODES).collect() } else { Vec::new() };
        let mut identifiable = false;
        let mut item_name = None;
        if etype.is_named() {
            if let Some(ElementContent::Element(first)) = raw_content.first() {
                if first.element_name() == ElementName::ShortName {
                    identifiable = true;
                    let c: Vec<ElementContent> = first.content().take(4).collect();
                    if c.len() == 1 {
                        if let ElementContent::CharacterData(CharacterData::String(s)) = &c[0] {
                            item_name = Some(s.clone());
                        }
                    }
                }
            }
        }
        let is_ref = etype.is_ref();
        let mut ref_text = None;
        if is_ref && raw_content.len() == 1 {
            if let ElementContent::CharacterData(CharacterData::String(s)) = &raw_content[0] {
                ref_text = Some(s.clone());
            }
        }
        // file membership as the API reports it
        let fm_api = match e.file_membership() {
            Ok((local, set)) => {
                let mut v: Vec<usize> = set
                    .iter()
                    .map(|wf| wf.upgrade().map(|f| file_idx(&files, &f)).unwrap_or(usize::MAX))
                    .collect();
                v.sort();
                Ok((local, v))
            }
            Err(err) => Err(crate::ops::err_name(&err)),
        };
        let local: Vec<usize> = match &fm_api {
            Ok((true, v)) => v.clone(),
            _ => Vec::new(),
        };
        let eff = if !local.is_empty() {
            local.clone()
        } else if let Some(p) = parent {
            nodes[p].eff.clone()
        } else {
            Vec::new()
        };
        // computed path
        let cpath = if identifiable {
            // nearest identifiable ancestor's path
            let mut anc = parent;
            let mut base = String::new();
            while let Some(a) = anc {
                if nodes[a].identifiable {
                    base = nodes[a].cpath.clone().unwrap_or_default();
                    break;
                }
                anc = nodes[a].parent;
            }
            item_name.as_ref().map(|n| format!("{base}/{n}"))
        } else {
            None
        };

        // canonical line
        let mut head = String::new();
        head.push_str(&format!("{}|", name.to_str()));
        for a in e.attributes().take(1000) {
            if parent.is_none() && a.attrname == autosar_data::AttributeName::xsiSchemalocation {
                // serializing a file rewrites this attribute of the root element (documented side effect of an observer
                // the harness itself uses), so it is not part of the canonical state
                head.push_str("xsi:schemaLocation=*;");
                continue;
            }
            head.push_str(&format!("{}={};", a.attrname.to_str(), cd_str(&a.content)));
        }
        head.push('|');
        if let Some(c) = e.comment() {
            head.push_str(&format!("{c:?}"));
        }
        let mut files_s = String::new();
        for fi in &local {
            if *fi == usize::MAX {
                files_s.push_str("?;");
            } else {
                files_s.push_str(&format!("{};", files[*fi].name));
            }
        }
        let mut content_s = String::new();
        let mut content = Vec::new();
        let mut child_elems = Vec::new();
        for (i, c) in raw_content.into_iter().enumerate() {
            match c {
                ElementContent::Element(sub) => {
                    content_s.push_str("e,");
                    content.push(CItem::E(usize::MAX));
                    child_elems.push((sub, i));
                }
                ElementContent::CharacterData(cd) => {
                    let s = cd_str(&cd);
                    content_s.push_str(&format!("c{s:?},"));
                    content.push(CItem::C(s));
                }
            }
        }
        if !expand {
            content_s.push_str("DUPLICATE-NODE");
        }
        let line = format!("{depth}|{head}|{files_s}|{content_s}");
        for (sub, i) in child_elems.into_iter().rev() {
            stack.push((sub, Some(idx), depth + 1, i));
        }
        nodes.push(Node {
            e,
            parent,
            depth,
            pos,
            name,
            identifiable,
            item_name,
            cpath,
            is_ref,
            ref_text,
            content,
            children: Vec::new(),
            local,
            fm_api,
            eff,
            line,
            head,
            files_s,
            content_s,
        });
        if let Some(p) = parent {
            nodes[p].children.push(idx);
            if let Some(slot) = nodes[p].content.get_mut(pos) {
                *slot = CItem::E(idx);
            }
        }
    }

    let to_idx = |e: Option<Element>| -> IdxT {
        match e {
            Some(e) => match by_elem.get(&e) {
                Some(i) => IdxT::Node(*i),
                None => IdxT::Detached,
            },
            None => IdxT::Dead,
        }
    };

    let mut index: Vec<(String, IdxT)> = model
        .identifiable_elements()
        .take(MAX_NODES * 2)
        .map(|(p, w)| (p, to_idx(w.upgrade())))
        .collect();
    index.sort();

    let ref_keys = model.verif_reference_origin_keys();
    let mut referrers = Vec::new();
    for k in &ref_keys {
        let mut v: Vec<IdxT> = model.get_references_to(k).iter().map(|w| to_idx(w.upgrade())).collect();
        v.sort();
        referrers.push((k.clone(), v));
    }

    let mut canon = String::with_capacity(nodes.len() * 48 + 256);
    for n in &nodes {
        canon.push_str(&n.line);
        canon.push('\n');
    }
    canon.push_str("FILES\n");
    for f in &files {
        canon.push_str(&format!("{}|{}|{:?}\n", f.name, f.ver.filename(), f.standalone));
    }
    canon.push_str("INDEX\n");
    for (p, t) in &index {
        canon.push_str(&format!("{p} -> {t:?}\n"));
    }
    canon.push_str("REFERRERS\n");
    for (k, v) in &referrers {
        if !v.is_empty() {
            canon.push_str(&format!("{k} <- {v:?}\n"));
        }
    }
    if truncated {
        canon.push_str("TRUNCATED\n");
    }

    ModelSnap {
        model: model.clone(),
        nodes,
        by_elem,
        dup_nodes,
        files,
        index,
        ref_keys,
        referrers,
        canon,
        truncated,
    }
}

impl ModelSnap {
    /// which section of the canonical text differs first ("tree", "files", "index", "referrers")
    pub fn diff_section(&self, other: &ModelSnap) -> Option<(&'static str, String)> {
        if self.canon == other.canon {
            return None;
        }
        let mut section = "tree";
        let a: Vec<&str> = self.canon.lines().collect();
        let b: Vec<&str> = other.canon.lines().collect();
        let mut sec_b = "tree";
        for i in 0..a.len().max(b.len()) {
            let la = a.get(i).copied().unwrap_or("<end>");
            let lb = b.get(i).copied().unwrap_or("<end>");
            for (l, s) in [(la, &mut section), (lb, &mut sec_b)] {
                match l {
                    "FILES" => *s = "files",
                    "INDEX" => *s = "index",
                    "REFERRERS" => *s = "referrers",
                    _ => {}
                }
            }
            if la != lb {
                // the earlier section of the two wins (a line missing from the tree shifts everything)
                let order = ["tree", "files", "index", "referrers"];
                let sa = order.iter().position(|x| *x == section).unwrap();
                let sb = order.iter().position(|x| *x == sec_b).unwrap();
                let sec = order[sa.min(sb)];
                return Some((sec, format!("line {i}: before `{la}` after `{lb}`")));
            }
        }
        Some(("tree", "different length".to_string()))
    }

    pub fn tree_text(&self) -> String {
        let mut s = String::new();
        for n in &self.nodes {
            s.push_str(&n.line);
            s.push('\n');
        }
        s
    }

    /// canonical text of the subtree rooted at node `i`, with depths relative to it and without file membership of the root
    pub fn subtree_text(&self, i: usize, with_files: bool) -> String {
        let mut s = String::new();
        let base = self.nodes[i].depth;
        let mut j = i;
        while j < self.nodes.len() && (j == i || self.nodes[j].depth > base) {
            let n = &self.nodes[j];
            s.push_str(&format!("{}|{}|", n.depth - base, n.head));
            if with_files && j != i {
                s.push_str(&n.files_s);
            }
            s.push('|');
            s.push_str(&n.content_s);
            s.push('\n');
            j += 1;
        }
        s
    }

    pub fn subtree_range(&self, i: usize) -> std::ops::Range<usize> {
        let base = self.nodes[i].depth;
        let mut j = i + 1;
        while j < self.nodes.len() && self.nodes[j].depth > base {
            j += 1;
        }
        i..j
    }
}

pub fn hash64(s: &str) -> u64 {
    crate::rng::hash_str(s)
}

/// What a deep copy of `src` into a destination of version `ver` must look like, computed by the harness from
/// `content()`, `attributes()`, `comment()` and the specification's own listing (same text format as `subtree_text`
/// without file annotations). None: the copy must be refused (a required attribute is not permitted in `ver`).
pub fn expected_copy_text(src: &Element, ver: AutosarVersion) -> Option<String> {
    fn rec(e: &Element, ver: AutosarVersion, depth: usize, out: &mut String, budget: &mut usize) -> bool {
        if *budget == 0 {
            return false;
        }
        *budget -= 1;
        let etype = e.element_type();
        let mut head = format!("{}|", e.element_name().to_str());
        for a in e.attributes().take(1000) {
            let keep = match etype.find_attribute_spec(a.attrname) {
                Some(spec) => {
                    let value_ok = match (spec.spec, &a.content) {
                        (autosar_data_specification::CharacterDataSpec::Enum { items }, CharacterData::Enum(v)) => {
                            items.iter().find(|(i, _)| i == v).map(|(_, m)| ver.compatible(*m)).unwrap_or(false)
                        }
                        (autosar_data_specification::CharacterDataSpec::Enum { .. }, _) => false,
                        _ => true,
                    };
                    if ver.compatible(spec.version) && value_ok {
                        true
                    } else if spec.required {
                        return false;
                    } else {
                        false
                    }
                }
                None => return false,
            };
            if keep {
                head.push_str(&format!("{}={};", a.attrname.to_str(), cd_str(&a.content)));
            }
        }
        head.push('|');
        if let Some(c) = e.comment() {
            head.push_str(&format!("{c:?}"));
        }
        let mut content_s = String::new();
        let mut sub_text = String::new();
        for c in e.content().take(MAX_NODES) {
            match c {
                ElementContent::Element(sub) => {
                    if etype.find_sub_element(sub.element_name(), ver as u32).is_some() {
                        let mut t = String::new();
                        if rec(&sub, ver, depth + 1, &mut t, budget) {
                            content_s.push_str("e,");
                            sub_text.push_str(&t);
                        }
                    }
                }
                ElementContent::CharacterData(cd) => {
                    content_s.push_str(&format!("c{:?},", cd_str(&cd)));
                }
            }
        }
        out.push_str(&format!("{depth}|{head}||{content_s}\n"));
        out.push_str(&sub_text);
        true
    }
    let mut out = String::new();
    let mut budget = MAX_NODES;
    if rec(src, ver, 0, &mut out, &mut budget) { Some(out) } else { None }
}
