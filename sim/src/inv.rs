//! State invariants C03 / C04 / C05 / C10, evaluated on a snapshot at a quiescent point (pass-through mode).
//! Every reference value (paths, DFS order, referrers, per-file element sets) is computed by the harness
//! from `content()` alone; the crate's own answers are compared against it.

use crate::obs::{CItem, IdxT, ModelSnap};
use autosar_data::{AttributeName, AutosarModel, CharacterData, Element};
use std::collections::{BTreeMap, HashMap};

#[derive(Clone, Debug)]
pub struct Viol {
    pub prop: &'static str,
    pub clause: &'static str,
    pub detail: String,
}

fn v(out: &mut Vec<Viol>, prop: &'static str, clause: &'static str, detail: String) {
    // keep the first few per clause
    if out.iter().filter(|x| x.clause == clause).count() < 3 {
        out.push(Viol { prop, clause, detail });
    }
}

pub struct Derived {
    /// computed path -> node indices (more than one = duplicate path)
    pub paths: BTreeMap<String, Vec<usize>>,
    /// reference text -> node indices of reference elements
    pub refs: BTreeMap<String, Vec<usize>>,
}

pub fn derive(ms: &ModelSnap) -> Derived {
    let mut paths: BTreeMap<String, Vec<usize>> = BTreeMap::new();
    let mut refs: BTreeMap<String, Vec<usize>> = BTreeMap::new();
    for (i, n) in ms.nodes.iter().enumerate() {
        if let Some(p) = &n.cpath {
            paths.entry(p.clone()).or_default().push(i);
        }
        if let Some(t) = &n.ref_text {
            refs.entry(t.clone()).or_default().push(i);
        }
    }
    Derived { paths, refs }
}

pub struct CheckOpts {
    /// element-scoped iterators are compared on every n-th node (0 = root only)
    pub dfs_sample: usize,
    pub check_c03: bool,
    pub check_c04: bool,
    pub check_c05: bool,
    pub check_c10: bool,
    /// serialize every file and load it into a fresh model (expensive)
    pub c10_reload: bool,
}

impl Default for CheckOpts {
    fn default() -> Self {
        Self {
            dfs_sample: 7,
            check_c03: true,
            check_c04: true,
            check_c05: true,
            check_c10: true,
            c10_reload: false,
        }
    }
}

fn ref_dfs(ms: &ModelSnap, start: usize, max_depth: usize) -> Vec<(usize, usize)> {
    // (relative depth, node index) in document order, limited like the crate's iterator: descend while depth < max (0 = unlimited)
    let base = ms.nodes[start].depth;
    let mut out = Vec::new();
    for j in ms.subtree_range(start) {
        let d = ms.nodes[j].depth - base;
        if max_depth == 0 || d <= max_depth {
            out.push((d, j));
        }
    }
    out
}

fn cmp_dfs(
    out: &mut Vec<Viol>,
    ms: &ModelSnap,
    what: &'static str,
    got: Vec<(usize, Element)>,
    want: &[(usize, usize)],
    ctx: String,
) {
    let mut ok = got.len() == want.len();
    if ok {
        for (g, w) in got.iter().zip(want.iter()) {
            if g.0 != w.0 || ms.by_elem.get(&g.1) != Some(&w.1) {
                ok = false;
                break;
            }
        }
    }
    if !ok {
        v(out, "C03", what, format!("{ctx}: iterator yields {} items, reference walk {} items (or order/depth differs)", got.len(), want.len()));
    }
}

pub fn check(ms: &ModelSnap, model: &AutosarModel, o: &CheckOpts) -> Vec<Viol> {
    let mut out = Vec::new();
    if ms.truncated {
        return out;
    }
    let d = derive(ms);
    if o.check_c03 {
        c03(ms, model, o, &mut out);
    }
    if o.check_c04 {
        c04(ms, model, &d, &mut out);
    }
    if o.check_c05 {
        c05(ms, model, &d, &mut out);
    }
    if o.check_c10 {
        c10(ms, model, o, &mut out);
    }
    out
}

fn c03(ms: &ModelSnap, model: &AutosarModel, o: &CheckOpts, out: &mut Vec<Viol>) {
    for (a, b) in &ms.dup_nodes {
        v(out, "C03", "node-listed-twice", format!("node {a} ({}) is listed again under node {b}", ms.nodes[*a].name));
    }
    for (i, n) in ms.nodes.iter().enumerate() {
        match (n.parent, n.e.parent()) {
            (None, Ok(None)) => {}
            (Some(p), Ok(Some(pe))) => {
                if ms.nodes[p].e != pe {
                    v(out, "C03", "parent-mismatch", format!("node {i} {}: parent() is not the element that lists it", n.name));
                }
            }
            (_, r) => v(out, "C03", "parent-mismatch", format!("node {i} {}: parent() = {:?}", n.name, r.map(|x| x.map(|e| e.element_name())))),
        }
        if let Some(p) = n.parent {
            let pos = n.e.position();
            if pos != Some(n.pos) {
                v(out, "C03", "position-mismatch", format!("node {i} {}: position() = {pos:?}, listed at {}", n.name, n.pos));
            }
            if ms.nodes[p].e.get_sub_element_at(n.pos).as_ref() != Some(&n.e) {
                v(out, "C03", "get-sub-element-at", format!("node {i} {}: parent.get_sub_element_at({}) is a different element", n.name, n.pos));
            }
        }
        match n.e.model() {
            Ok(m) if m == *model => {}
            r => v(out, "C03", "model-mismatch", format!("node {i} {}: model() = {:?}", n.name, r.map(|_| "other model"))),
        }
        // sub_elements() is the element filter of content()
        let subs: Vec<Element> = n.e.sub_elements().take(ms.nodes.len() + 10).collect();
        let want: Vec<usize> = n.content.iter().filter_map(|c| if let CItem::E(j) = c { Some(*j) } else { None }).collect();
        let same = subs.len() == want.len()
            && subs.iter().zip(want.iter()).all(|(s, w)| *w != usize::MAX && ms.nodes[*w].e == *s);
        if !same && !ms.dup_nodes.iter().any(|(a, _)| *a == i) && ms.by_elem.get(&n.e) == Some(&i) {
            v(out, "C03", "sub-elements-iterator", format!("node {i} {}: sub_elements() yields {} items, content() has {} elements", n.name, subs.len(), want.len()));
        }
    }
    // depth-first iterators
    let cap = ms.nodes.len() * 2 + 10;
    for md in [0usize, 1, 2] {
        let got: Vec<(usize, Element)> = model.elements_dfs_with_max_depth(md).take(cap).collect();
        cmp_dfs(out, ms, "model-dfs", got, &ref_dfs(ms, 0, md), format!("model dfs max_depth={md}"));
    }
    let got: Vec<(usize, Element)> = model.elements_dfs().take(cap).collect();
    cmp_dfs(out, ms, "model-dfs", got, &ref_dfs(ms, 0, 0), "model dfs".to_string());
    if o.dfs_sample > 0 {
        let mut i = o.dfs_sample % ms.nodes.len().max(1);
        let mut k = 0;
        while i < ms.nodes.len() && k < 6 {
            for md in [0usize, 1, 3] {
                let got: Vec<(usize, Element)> = ms.nodes[i].e.elements_dfs_with_max_depth(md).take(cap).collect();
                cmp_dfs(out, ms, "element-dfs", got, &ref_dfs(ms, i, md), format!("element dfs at node {i} max_depth={md}"));
            }
            i += (ms.nodes.len() / 5).max(1) + 1;
            k += 1;
        }
    }
    // file-scoped iterators: skip subtrees whose local set is non-empty and does not contain the file
    for (fi, f) in ms.files.iter().enumerate() {
        for md in [0usize, 2] {
            let mut want = Vec::new();
            let mut skip_below: Option<usize> = None;
            for (j, n) in ms.nodes.iter().enumerate() {
                if let Some(d) = skip_below {
                    if n.depth > d {
                        continue;
                    }
                    skip_below = None;
                }
                if !n.local.is_empty() && !n.local.contains(&fi) {
                    skip_below = Some(n.depth);
                    continue;
                }
                if md == 0 || n.depth <= md {
                    want.push((n.depth, j));
                }
            }
            let got: Vec<(usize, Element)> = f.f.elements_dfs_with_max_depth(md).take(cap).collect();
            cmp_dfs(out, ms, "file-dfs", got, &want, format!("file dfs of {} max_depth={md}", f.name));
        }
    }
}

fn c04(ms: &ModelSnap, model: &AutosarModel, d: &Derived, out: &mut Vec<Viol>) {
    for (p, nodes) in &d.paths {
        if nodes.len() > 1 {
            v(out, "C04", "duplicate-path", format!("{} elements have the path {p}", nodes.len()));
        }
    }
    // index entries
    let mut seen: HashMap<usize, usize> = HashMap::new();
    for (p, t) in &ms.index {
        match t {
            IdxT::Node(i) => {
                *seen.entry(*i).or_default() += 1;
                let ambiguous = ms.nodes[*i].cpath.as_ref().map(|c| d.paths[c].len() > 1).unwrap_or(false);
                if !ambiguous && ms.nodes[*i].cpath.as_deref() != Some(p.as_str()) {
                    v(out, "C04", "index-wrong-key", format!("index lists {} under `{p}`, its path is {:?}", ms.nodes[*i].name, ms.nodes[*i].cpath));
                }
            }
            IdxT::Detached => v(out, "C04", "index-stale-entry", format!("index entry `{p}` points to an element that is not part of the model")),
            IdxT::Dead => v(out, "C04", "index-dead-entry", format!("index entry `{p}` is dead")),
        }
    }
    for (i, n) in ms.nodes.iter().enumerate() {
        // an element whose SHORT-NAME has no text (only a lenient load of a damaged document produces that) has no path
        if n.identifiable && n.cpath.is_some() {
            if ms.by_elem.get(&n.e) != Some(&i) {
                continue;
            }
            // two elements with one path: reported once as duplicate-path; what follows from it is not reported again
            if n.cpath.as_ref().map(|c| d.paths[c].len() > 1).unwrap_or(false) {
                continue;
            }
            match seen.get(&i).copied().unwrap_or(0) {
                1 => {}
                0 => v(out, "C04", "index-missing-entry", format!("identifiable {} with path {:?} is not enumerated", n.name, n.cpath)),
                k => v(out, "C04", "index-duplicate-entry", format!("identifiable {} with path {:?} is enumerated {k} times", n.name, n.cpath)),
            }
            if n.e.item_name() != n.item_name {
                v(out, "C04", "item-name-mismatch", format!("{}: item_name() = {:?}, SHORT-NAME text {:?}", n.name, n.e.item_name(), n.item_name));
            }
            {
                // the nearest identifiable ancestor
                let mut anc = n.parent;
                while let Some(a) = anc {
                    if ms.nodes[a].identifiable {
                        break;
                    }
                    anc = ms.nodes[a].parent;
                }
                match (n.e.named_parent(), anc) {
                    (Ok(Some(p)), Some(a)) if p == ms.nodes[a].e => {}
                    (Ok(None), None) => {}
                    (r, _) => v(out, "C04", "named-parent-mismatch", format!("{}: named_parent() = {:?}", n.name, r.map(|x| x.map(|e| e.element_name())))),
                }
            }
            if let Some(cp) = &n.cpath {
                match n.e.path() {
                    Ok(p) if p == *cp => {}
                    r => v(out, "C04", "path-mismatch", format!("{}: path() = {r:?}, computed {cp}", n.name)),
                }
                // lookup returns this very element (unless the path is ambiguous)
                if d.paths[cp].len() == 1 {
                    match model.get_element_by_path(cp) {
                        Some(e) if e == n.e => {}
                        Some(_) => v(out, "C04", "lookup-wrong-element", format!("lookup of {cp} returns a different element")),
                        None => v(out, "C04", "lookup-missing", format!("lookup of {cp} returns nothing")),
                    }
                }
                // neighbours of the key must not resolve unless they are paths themselves
                for cand in [format!("{cp}/x"), format!("{cp}0"), format!("{cp}_1"), { let mut t = cp.clone(); t.pop(); t }, format!("{cp}/")] {
                    if !d.paths.contains_key(&cand) && model.get_element_by_path(&cand).is_some() {
                        v(out, "C04", "lookup-phantom", format!("lookup of `{cand}` succeeds although no element has this path"));
                    }
                }
            }
        }
    }
}

fn dest_ok(ms: &ModelSnap, r: usize, target: usize) -> bool {
    match ms.nodes[r].e.attribute_value(AttributeName::Dest) {
        Some(CharacterData::Enum(dest)) => ms.nodes[target].e.element_type().verify_reference_dest(dest),
        _ => false,
    }
}

fn c05(ms: &ModelSnap, model: &AutosarModel, d: &Derived, out: &mut Vec<Viol>) {
    let mut keys: Vec<String> = ms.ref_keys.clone();
    for k in d.refs.keys() {
        if !keys.contains(k) {
            keys.push(k.clone());
        }
    }
    for k in &keys {
        let listed: Vec<IdxT> = model
            .get_references_to(k)
            .iter()
            .filter_map(|w| w.upgrade())
            .map(|e| ms.by_elem.get(&e).map(|i| IdxT::Node(*i)).unwrap_or(IdxT::Detached))
            .collect();
        let mut got: Vec<usize> = Vec::new();
        for t in &listed {
            match t {
                IdxT::Node(i) => got.push(*i),
                _ => v(out, "C05", "referrer-stale", format!("referrer list of `{k}` contains an element that is not part of the model")),
            }
        }
        got.sort();
        let mut want: Vec<usize> = d.refs.get(k).cloned().unwrap_or_default();
        want.sort();
        if got != want {
            let extra: Vec<&usize> = got.iter().filter(|i| !want.contains(i)).collect();
            let missing: Vec<&usize> = want.iter().filter(|i| !got.contains(i)).collect();
            if !extra.is_empty() {
                v(out, "C05", "referrer-wrong-key", format!("referrer list of `{k}` contains {} element(s) whose text is not `{k}` (e.g. {:?})", extra.len(), ms.nodes[*extra[0]].ref_text));
            }
            if !missing.is_empty() {
                v(out, "C05", "referrer-missing", format!("{} reference(s) with text `{k}` are not in its referrer list", missing.len()));
            }
            if extra.is_empty() && missing.is_empty() {
                v(out, "C05", "referrer-duplicate", format!("referrer list of `{k}` lists an element more than once"));
            }
        }
    }
    // invalid-reference report
    let mut invalid_want: Vec<usize> = Vec::new();
    for (text, rs) in &d.refs {
        for r in rs {
            let target = d.paths.get(text).and_then(|t| t.first().copied());
            let ambiguous = d.paths.get(text).map(|t| t.len() > 1).unwrap_or(false);
            let valid = match target {
                Some(t) => dest_ok(ms, *r, t),
                None => false,
            };
            if !valid {
                invalid_want.push(*r);
            }
            if !ambiguous {
                match (valid, ms.nodes[*r].e.get_reference_target()) {
                    (true, Ok(t)) => {
                        if Some(&t) != target.map(|i| &ms.nodes[i].e) {
                            v(out, "C05", "target-wrong-element", format!("reference `{text}` resolves to a different element"));
                        }
                    }
                    (false, Err(_)) => {}
                    (true, Err(e)) => v(out, "C05", "target-unresolved", format!("valid reference `{text}` does not resolve: {e}")),
                    (false, Ok(_)) => v(out, "C05", "target-resolves-invalid", format!("invalid reference `{text}` resolves")),
                }
            }
        }
    }
    invalid_want.sort();
    let mut invalid_got: Vec<usize> = Vec::new();
    let mut stale = 0;
    for w in model.check_references() {
        match w.upgrade() {
            Some(e) => match ms.by_elem.get(&e) {
                Some(i) => invalid_got.push(*i),
                None => stale += 1,
            },
            None => {}
        }
    }
    if stale > 0 {
        v(out, "C05", "report-stale", format!("invalid-reference report lists {stale} element(s) that are not part of the model"));
    }
    invalid_got.sort();
    // ambiguity (duplicate paths) is C04's business: compare only references whose text is not ambiguous
    let amb = |i: &usize| ms.nodes[*i].ref_text.as_ref().map(|t| d.paths.get(t).map(|x| x.len() > 1).unwrap_or(false)).unwrap_or(false);
    let g: Vec<usize> = invalid_got.iter().copied().filter(|i| !amb(i)).collect();
    let w: Vec<usize> = invalid_want.iter().copied().filter(|i| !amb(i)).collect();
    if g != w {
        let extra = g.iter().filter(|i| !w.contains(i)).count();
        let missing = w.iter().filter(|i| !g.contains(i)).count();
        let dup = g.len() as i64 - extra as i64 - (w.len() as i64 - missing as i64);
        if extra > 0 {
            v(out, "C05", "report-extra", format!("invalid-reference report lists {extra} valid reference(s)"));
        }
        if missing > 0 {
            v(out, "C05", "report-missing", format!("invalid-reference report misses {missing} invalid reference(s)"));
        }
        if extra == 0 && missing == 0 && dup != 0 {
            v(out, "C05", "report-duplicate", "invalid-reference report lists a reference more than once".to_string());
        }
    }
}

fn c10(ms: &ModelSnap, _model: &AutosarModel, o: &CheckOpts, out: &mut Vec<Viol>) {
    let nfiles = ms.files.len();
    for (i, f) in ms.files.iter().enumerate() {
        if ms.files[..i].iter().any(|g| g.name == f.name) {
            v(out, "C10", "duplicate-file-name", format!("two files of the model are named {}", f.name));
        }
    }
    for (i, n) in ms.nodes.iter().enumerate() {
        if n.local.contains(&usize::MAX) {
            v(out, "C10", "membership-foreign-file", format!("node {i} {} is attributed to a file that is not part of the model", n.name));
        }
        if let Some(p) = n.parent {
            let pe = &ms.nodes[p].eff;
            if !n.local.is_empty() && !n.local.iter().all(|f| pe.contains(f)) {
                v(out, "C10", "membership-not-in-parent", format!("node {i} {} is restricted to files {:?}, its parent is only in {:?}", n.name, names(ms, &n.local), names(ms, pe)));
            }
        }
        // self-contained files: the SHORT-NAME of an identifiable element is written to every file the element is written to
        if n.identifiable {
            if let Some(CItem::E(c)) = n.content.first() {
                if *c != usize::MAX {
                    let ce = &ms.nodes[*c].eff;
                    if !n.eff.iter().all(|f| ce.contains(f)) {
                        v(out, "C10", "file-lacks-short-name", format!("node {i} {} is in files {:?}, its SHORT-NAME only in {:?}", n.name, names(ms, &n.eff), names(ms, ce)));
                    }
                }
            }
        }
        if nfiles > 0 && n.eff.is_empty() {
            v(out, "C10", "membership-empty", format!("node {i} {} belongs to no file", n.name));
        }
        // what the API reports for an inheriting element is its ancestor's set
        match &n.fm_api {
            Ok((false, set)) => {
                if *set != n.eff {
                    v(out, "C10", "membership-inherit-mismatch", format!("node {i} {}: inherited set {:?}, computed {:?}", n.name, names(ms, set), names(ms, &n.eff)));
                }
            }
            Ok((true, _)) => {}
            Err(e) => {
                if nfiles > 0 {
                    v(out, "C10", "membership-error", format!("node {i} {}: file_membership() fails with {e}", n.name));
                }
            }
        }
    }
    if o.c10_reload {
        for (fi, f) in ms.files.iter().enumerate() {
            reload_check(ms, fi, &f.f, out);
        }
    }
}

fn names(ms: &ModelSnap, v: &[usize]) -> Vec<String> {
    v.iter().map(|i| if *i == usize::MAX { "?".to_string() } else { ms.files[*i].name.clone() }).collect()
}

/// the text written for a file contains exactly the elements attributed to it, and loads on its own
pub fn reload_check(ms: &ModelSnap, fi: usize, f: &autosar_data::ArxmlFile, out: &mut Vec<Viol>) {
    let text = match f.serialize() {
        Ok(t) => t,
        Err(e) => {
            // a file that no element is attributed to is documented to be empty
            let empty = !ms.nodes.iter().any(|n| n.eff.contains(&fi));
            if !(empty && matches!(e, autosar_data::AutosarDataError::EmptyFile)) {
                v(out, "C10", "file-not-serializable", format!("file {} does not serialize: {e}", ms.files[fi].name));
            }
            return;
        }
    };
    let fresh = AutosarModel::new();
    match fresh.load_buffer(text.as_bytes(), "reload.arxml", false) {
        Err(e) => {
            // differential: if the complete tree, written as one document, does not load either, the reason is not the
            // division into files (it is a conformance matter of the editing API, which C07 speaks about)
            let whole = format!("<?xml version=\"1.0\" encoding=\"utf-8\"?>{}", ms.model.root_element().serialize());
            let fresh2 = AutosarModel::new();
            if fresh2.load_buffer(whole.as_bytes(), "whole.arxml", false).is_ok() {
                v(out, "C10", "file-does-not-load", format!("text of {} does not load on its own: {e}", ms.files[fi].name));
            }
        }
        Ok(_) => {
            let fs = crate::obs::snapshot(&fresh);
            // reference: the tree filtered by effective membership, without file annotations
            let mut want = String::new();
            for n in &ms.nodes {
                if n.eff.contains(&fi) {
                    // content list restricted to children that are in the file
                    want.push_str(&format!("{}|{}|", n.depth, strip_root_attrs(n)));
                    let mut items: Vec<Option<String>> = Vec::new();
                    for c in &n.content {
                        match c {
                            CItem::E(j) => {
                                if *j != usize::MAX && ms.nodes[*j].eff.contains(&fi) {
                                    items.push(None);
                                }
                            }
                            CItem::C(s) => items.push(Some(s.clone())),
                        }
                    }
                    want.push_str(&coalesce(&items));
                    want.push('\n');
                }
            }
            let mut got = String::new();
            for n in &fs.nodes {
                let items: Vec<Option<String>> = n.content.iter().map(|c| match c { CItem::E(_) => None, CItem::C(s) => Some(s.clone()) }).collect();
                got.push_str(&format!("{}|{}|{}\n", n.depth, strip_root_attrs(n), coalesce(&items)));
            }
            if got != want {
                let (mut la, mut lb) = ("<end>".to_string(), "<end>".to_string());
                for (a, b) in got.lines().zip(want.lines()) {
                    if a != b {
                        la = a.to_string();
                        lb = b.to_string();
                        break;
                    }
                }
                let clause = if got.lines().count() < want.lines().count() {
                    "file-text-omits-elements"
                } else if got.lines().count() > want.lines().count() {
                    "file-text-extra-elements"
                } else {
                    "file-text-differs"
                };
                v(out, "C10", clause, format!("file {}: reloaded `{la}` vs attributed `{lb}`", ms.files[fi].name));
            }
        }
    }
}

/// content list as text; adjacent character data items are one item after a reload (that is the loader's business, C01)
fn coalesce(items: &[Option<String>]) -> String {
    let mut out = String::new();
    let mut pending: Option<String> = None;
    for it in items {
        match it {
            Some(s) => {
                let body = s.split_once(':').map(|x| x.1).unwrap_or(s);
                if body.is_empty() {
                    continue;
                }
                match &mut pending {
                    Some(p) => p.push_str(body),
                    None => pending = Some(body.to_string()),
                }
            }
            None => {
                if let Some(p) = pending.take() {
                    out.push_str(&format!("c{p:?},"));
                }
                out.push_str("e,");
            }
        }
    }
    if let Some(p) = pending.take() {
        out.push_str(&format!("c{p:?},"));
    }
    out
}

fn strip_root_attrs(n: &crate::obs::Node) -> String {
    // the root's schemaLocation is rewritten per file version on serialization; ignore the root's attributes
    if n.depth == 0 {
        n.name.to_str().to_string()
    } else {
        n.head.clone()
    }
}
