//! Seeded workload generation. Operations are generated online against the real model
//! (inspected in pass-through mode), so that most calls are meaningful; operands are handles.

use crate::obs::{ModelSnap, Node};
use crate::ops::{Op, K};
use crate::rng::Rng;
use crate::world::{World, H};
use autosar_data::{AutosarModel, AutosarVersion, Element, ElementName};
use autosar_data_specification::{CharacterDataSpec, ContentMode};
use std::str::FromStr;

pub const VERSIONS: &[&str] = &[
    "AUTOSAR_00050.xsd",
    "AUTOSAR_00050.xsd",
    "AUTOSAR_00051.xsd",
    "AUTOSAR_00048.xsd",
    "AUTOSAR_4-3-0.xsd",
    "AUTOSAR_4-0-3.xsd",
    "AUTOSAR_00053.xsd",
    "AUTOSAR_4-2-2.xsd",
];

pub const PKG_NAMES: &[&str] = &["pkg1", "pkg10", "pkg2", "A", "B", "pkg1_1"];
pub const ITEM_NAMES: &[&str] = &["e1", "e10", "e2", "sig", "sig_1", "a2", "a10", "a1b", "x", "x_1", "Sys", "Cluster"];
pub const BAD_NAMES: &[&str] = &["", "1abc", "a b", "a/b", "ä", "_x"];
pub const FILE_NAMES: &[&str] = &["f0.arxml", "f1.arxml", "f2.arxml", "f3.arxml", "dir/f4.arxml"];

/// favourite children per parent element name: (child, is typically named)
const GUIDE: &[(&str, &[&str])] = &[
    ("AUTOSAR", &["AR-PACKAGES", "ADMIN-DATA"]),
    ("AR-PACKAGES", &["AR-PACKAGE"]),
    ("AR-PACKAGE", &["ELEMENTS", "AR-PACKAGES", "CATEGORY", "DESC", "LONG-NAME", "ADMIN-DATA"]),
    (
        "ELEMENTS",
        &[
            "SYSTEM",
            "CAN-CLUSTER",
            "SYSTEM-SIGNAL",
            "SYSTEM-SIGNAL",
            "I-SIGNAL",
            "I-SIGNAL",
            "ECU-INSTANCE",
            "CAN-FRAME",
            "I-SIGNAL-I-PDU",
            "ECUC-MODULE-CONFIGURATION-VALUES",
            "ECUC-MODULE-DEF",
            "SW-BASE-TYPE",
            "ECUC-VALUE-COLLECTION",
            "APPLICATION-SW-COMPONENT-TYPE",
        ],
    ),
    ("SYSTEM", &["FIBEX-ELEMENTS", "CATEGORY", "SYSTEM-VERSION", "MAPPINGS", "PNC-VECTOR-LENGTH"]),
    ("FIBEX-ELEMENTS", &["FIBEX-ELEMENT-REF-CONDITIONAL"]),
    ("FIBEX-ELEMENT-REF-CONDITIONAL", &["FIBEX-ELEMENT-REF"]),
    ("CAN-CLUSTER", &["CAN-CLUSTER-VARIANTS"]),
    ("CAN-CLUSTER-VARIANTS", &["CAN-CLUSTER-CONDITIONAL"]),
    ("CAN-CLUSTER-CONDITIONAL", &["PHYSICAL-CHANNELS", "BAUDRATE", "PROTOCOL-NAME"]),
    ("PHYSICAL-CHANNELS", &["CAN-PHYSICAL-CHANNEL"]),
    ("CAN-PHYSICAL-CHANNEL", &["FRAME-TRIGGERINGS", "I-SIGNAL-TRIGGERINGS", "CATEGORY"]),
    ("FRAME-TRIGGERINGS", &["CAN-FRAME-TRIGGERING"]),
    ("CAN-FRAME-TRIGGERING", &["FRAME-REF", "IDENTIFIER", "CAN-ADDRESSING-MODE"]),
    ("I-SIGNAL-TRIGGERINGS", &["I-SIGNAL-TRIGGERING"]),
    ("I-SIGNAL-TRIGGERING", &["I-SIGNAL-REF"]),
    ("I-SIGNAL", &["SYSTEM-SIGNAL-REF", "LENGTH", "DATA-TYPE-POLICY", "I-SIGNAL-TYPE"]),
    ("I-SIGNAL-I-PDU", &["LENGTH", "I-SIGNAL-TO-PDU-MAPPINGS"]),
    ("I-SIGNAL-TO-PDU-MAPPINGS", &["I-SIGNAL-TO-I-PDU-MAPPING"]),
    ("I-SIGNAL-TO-I-PDU-MAPPING", &["I-SIGNAL-REF", "START-POSITION", "PACKING-BYTE-ORDER"]),
    ("CAN-FRAME", &["FRAME-LENGTH", "PDU-TO-FRAME-MAPPINGS"]),
    ("PDU-TO-FRAME-MAPPINGS", &["PDU-TO-FRAME-MAPPING"]),
    ("PDU-TO-FRAME-MAPPING", &["PDU-REF", "START-POSITION", "PACKING-BYTE-ORDER"]),
    ("ECU-INSTANCE", &["COMM-CONTROLLERS", "CONNECTORS", "CATEGORY"]),
    ("COMM-CONTROLLERS", &["CAN-COMMUNICATION-CONTROLLER"]),
    ("CONNECTORS", &["CAN-COMMUNICATION-CONNECTOR"]),
    ("CAN-COMMUNICATION-CONNECTOR", &["COMM-CONTROLLER-REF"]),
    ("ECUC-MODULE-CONFIGURATION-VALUES", &["DEFINITION-REF", "CONTAINERS", "IMPLEMENTATION-CONFIG-VARIANT"]),
    ("CONTAINERS", &["ECUC-CONTAINER-VALUE", "ECUC-PARAM-CONF-CONTAINER-DEF"]),
    ("SUB-CONTAINERS", &["ECUC-CONTAINER-VALUE", "ECUC-PARAM-CONF-CONTAINER-DEF"]),
    (
        "ECUC-CONTAINER-VALUE",
        &["DEFINITION-REF", "PARAMETER-VALUES", "REFERENCE-VALUES", "SUB-CONTAINERS", "INDEX"],
    ),
    ("PARAMETER-VALUES", &["ECUC-NUMERICAL-PARAM-VALUE", "ECUC-TEXTUAL-PARAM-VALUE"]),
    ("ECUC-NUMERICAL-PARAM-VALUE", &["DEFINITION-REF", "VALUE", "INDEX"]),
    ("ECUC-TEXTUAL-PARAM-VALUE", &["DEFINITION-REF", "VALUE"]),
    ("REFERENCE-VALUES", &["ECUC-REFERENCE-VALUE"]),
    ("ECUC-REFERENCE-VALUE", &["DEFINITION-REF", "VALUE-REF"]),
    ("ECUC-MODULE-DEF", &["CONTAINERS", "CATEGORY"]),
    ("ECUC-PARAM-CONF-CONTAINER-DEF", &["PARAMETERS", "SUB-CONTAINERS", "REFERENCES"]),
    ("PARAMETERS", &["ECUC-INTEGER-PARAM-DEF", "ECUC-BOOLEAN-PARAM-DEF"]),
    ("ECUC-VALUE-COLLECTION", &["ECUC-VALUES", "ECU-EXTRACT-REF"]),
    ("ECUC-VALUES", &["ECUC-MODULE-CONFIGURATION-VALUES-REF-CONDITIONAL"]),
    ("ECUC-MODULE-CONFIGURATION-VALUES-REF-CONDITIONAL", &["ECUC-MODULE-CONFIGURATION-VALUES-REF"]),
    ("DESC", &["L-2"]),
    ("LONG-NAME", &["L-4"]),
    ("L-2", &["TT", "E", "SUP", "SUB", "BR"]),
    ("L-4", &["TT", "E", "SUP", "SUB"]),
    ("ADMIN-DATA", &["SDGS", "LANGUAGE"]),
    ("SDGS", &["SDG"]),
    ("SDG", &["SD", "SDG", "SDG-CAPTION"]),
    ("SW-BASE-TYPE", &["BASE-TYPE-SIZE", "BASE-TYPE-ENCODING", "CATEGORY"]),
    ("APPLICATION-SW-COMPONENT-TYPE", &["PORTS", "CATEGORY"]),
    ("PORTS", &["P-PORT-PROTOTYPE", "R-PORT-PROTOTYPE"]),
    ("P-PORT-PROTOTYPE", &["PROVIDED-INTERFACE-TREF"]),
    ("R-PORT-PROTOTYPE", &["REQUIRED-INTERFACE-TREF"]),
];

fn guide_for(parent: &str) -> &'static [&'static str] {
    GUIDE.iter().find(|(p, _)| *p == parent).map(|(_, c)| *c).unwrap_or(&[])
}

#[derive(Clone, Debug)]
pub struct Profile {
    pub name: &'static str,
    pub weights: Vec<(K, u32)>,
    /// permille of element operands taken from handles that are no longer part of any model
    pub stale_permille: u64,
    /// permille of two-element operations that pass the receiver as its own argument
    pub self_permille: u64,
    /// permille of element operands taken from a second model
    pub foreign_permille: u64,
    /// permille of "bad" values (invalid names, positions, attribute values)
    pub bad_permille: u64,
    /// permille of load operations whose buffer is torn / corrupted
    pub load_fault_permille: u64,
    /// permille of calls that handle SHORT-NAME elements like ordinary elements (create / copy / move them directly) or
    /// copy and move elements that were removed before - legal calls that build models the loader would reject
    pub abuse_permille: u64,
    /// permille of file-system calls (load_file, write) that meet an injected disk fault
    pub io_fault_permille: u64,
}

pub fn w(k: K, n: u32) -> (K, u32) {
    (k, n)
}

/// structural mix used by the state-invariant properties
pub fn base_weights() -> Vec<(K, u32)> {
    vec![
        w(K::ECreate, 60),
        w(K::ECreateAt, 12),
        w(K::ECreateNamed, 60),
        w(K::ECreateNamedAt, 12),
        w(K::EGetOrCreate, 10),
        w(K::EGetOrCreateNamed, 10),
        w(K::ECopy, 16),
        w(K::ECopyAt, 6),
        w(K::EMove, 16),
        w(K::EMoveAt, 8),
        w(K::ERemove, 14),
        w(K::ERemoveKind, 5),
        w(K::ESetItemName, 16),
        w(K::ESetRef, 30),
        w(K::ESetCData, 30),
        w(K::ERemoveCData, 6),
        w(K::EInsertCC, 5),
        w(K::ERemoveCC, 3),
        w(K::ESetAttr, 8),
        w(K::ESetAttrStr, 8),
        w(K::ERemoveAttr, 4),
        w(K::ESort, 4),
        w(K::MSort, 2),
        w(K::ESetComment, 4),
        w(K::MCreateFile, 6),
        w(K::MLoadBuffer, 8),
        w(K::MRemoveFile, 4),
        w(K::EAddToFile, 8),
        w(K::ERemoveFromFile, 6),
        w(K::FSetFilename, 2),
        w(K::FSetVersion, 2),
        w(K::MDuplicate, 2),
        // readers
        w(K::EPath, 3),
        w(K::EGetRef, 3),
        w(K::MGetByPath, 3),
        w(K::ESerialize, 2),
        w(K::FSerialize, 2),
        w(K::MCheckRefs, 2),
        w(K::EFileMembership, 2),
        w(K::ItOpen, 3),
        w(K::ItNext, 10),
    ]
}

/// every kind at least once: used by C12 and for the scenario catalogues
pub fn all_weights() -> Vec<(K, u32)> {
    let mut v = base_weights();
    for k in crate::ops::ALL_KINDS {
        // the file-system kinds are added by the profiles that want them (after the swarm selection)
        if !v.iter().any(|(x, _)| x == k) && !matches!(k, K::MLoadFile | K::MWrite) {
            v.push((*k, 3));
        }
    }
    v
}

pub struct View {
    pub models: Vec<(H, ModelSnap)>,
    /// handles of elements that are not part of any known model
    pub detached: Vec<H>,
    /// handles of elements that are still linked into the tree of a model whose last handle was dropped
    pub orphans: Vec<H>,
    /// files known to the world that are no longer in their model
    pub removed_files: Vec<H>,
    pub live_files: Vec<(H, H)>, // (file, model)
}

impl View {
    pub fn build(world: &World) -> View {
        let mut models = Vec::new();
        for (h, m) in world.models_in_order() {
            models.push((h, crate::obs::snapshot(&m)));
        }
        let mut detached = Vec::new();
        let mut orphans = Vec::new();
        for (h, e) in world.elems_in_order() {
            if !models.iter().any(|(_, ms)| ms.by_elem.contains_key(&e)) {
                // removed from a tree, or part of the intact tree of a dropped model?
                let mut top = e.clone();
                let mut steps = 0;
                let mut intact_root = false;
                loop {
                    match top.parent() {
                        Ok(Some(p)) => {
                            top = p;
                            steps += 1;
                            if steps > 10_000 {
                                break;
                            }
                        }
                        Ok(None) => {
                            intact_root = true;
                            break;
                        }
                        Err(_) => break,
                    }
                }
                // an orphan belongs to the intact tree of a model that is no longer known; if the walk ends at the root of
                // a KNOWN model although that model does not list the element, the element was removed and merely kept
                // a link to its former parent: that is a stale handle
                let top_known = models.iter().any(|(_, ms)| ms.by_elem.contains_key(&top));
                if intact_root && !top_known {
                    orphans.push(h);
                } else {
                    detached.push(h);
                }
            }
        }
        let mut removed_files = Vec::new();
        let mut live_files = Vec::new();
        for (h, f) in world.files_in_order() {
            let mut found = None;
            for (mh, ms) in &models {
                if ms.files.iter().any(|fi| fi.f == f) {
                    found = Some(*mh);
                }
            }
            match found {
                Some(mh) => live_files.push((h, mh)),
                None => removed_files.push(h),
            }
        }
        View {
            models,
            detached,
            orphans,
            removed_files,
            live_files,
        }
    }

    pub fn canon(&self) -> String {
        let mut s = String::new();
        for (h, ms) in &self.models {
            s.push_str(&format!("MODEL {h}\n"));
            s.push_str(&ms.canon);
        }
        s
    }

    pub fn total_nodes(&self) -> usize {
        self.models.iter().map(|(_, m)| m.nodes.len()).sum()
    }
}

pub struct Gen<'a> {
    pub rng: &'a mut Rng,
    pub world: &'a World,
    pub view: &'a View,
    pub prof: &'a Profile,
    pub max_nodes: usize,
    /// concurrent scenarios: operands are preferably taken from this neighbourhood, so that clients share elements
    pub focus: Option<Vec<Element>>,
}

fn content_mode(n: &Node) -> ContentMode {
    n.e.element_type().content_mode()
}

impl<'a> Gen<'a> {
    fn permille(&mut self, p: u64) -> bool {
        self.rng.chance(p, 1000)
    }

    fn primary(&self) -> Option<&'a (H, ModelSnap)> {
        self.view.models.first()
    }

    /// pick a model: mostly the primary one
    fn pick_model(&mut self) -> Option<&'a (H, ModelSnap)> {
        if self.view.models.is_empty() {
            return None;
        }
        if self.view.models.len() > 1 && self.permille(self.prof.foreign_permille.max(100)) {
            let i = 1 + self.rng.below(self.view.models.len() - 1);
            return self.view.models.get(i);
        }
        self.view.models.first()
    }

    fn node_h(&self, n: &Node) -> Option<H> {
        self.world.elem_h(&n.e)
    }

    fn pick_node_in(&mut self, ms: &'a ModelSnap, pred: &dyn Fn(&Node) -> bool) -> Option<&'a Node> {
        let len = ms.nodes.len();
        if len == 0 {
            return None;
        }
        if let Some(focus) = &self.focus {
            if !focus.is_empty() && self.rng.chance(3, 4) {
                let start = self.rng.below(focus.len());
                for k in 0..focus.len() {
                    if let Some(i) = ms.by_elem.get(&focus[(start + k) % focus.len()]) {
                        if pred(&ms.nodes[*i]) {
                            return Some(&ms.nodes[*i]);
                        }
                    }
                }
            }
        }
        let start = self.rng.below(len);
        for k in 0..len {
            let n = &ms.nodes[(start + k) % len];
            if pred(n) {
                return Some(n);
            }
        }
        None
    }

    /// element operand: usually a live node of the primary model satisfying `pred`, sometimes stale / foreign
    fn pick_elem(&mut self, pred: &dyn Fn(&Node) -> bool) -> Option<H> {
        if !self.view.detached.is_empty() && self.permille(self.prof.stale_permille) {
            return Some(self.rng.pick(&self.view.detached));
        }
        if !self.view.orphans.is_empty() && self.permille(self.prof.stale_permille) {
            return Some(self.rng.pick(&self.view.orphans));
        }
        let m = if self.view.models.len() > 1 && self.permille(self.prof.foreign_permille) {
            let i = 1 + self.rng.below(self.view.models.len() - 1);
            &self.view.models[i]
        } else {
            self.primary()?
        };
        let n = self.pick_node_in(&m.1, pred)?;
        self.node_h(n)
    }

    fn pick_any_elem(&mut self) -> Option<H> {
        self.pick_elem(&|_| true)
    }

    fn pick_file(&mut self) -> Option<H> {
        if !self.view.removed_files.is_empty() && self.permille(self.prof.stale_permille.max(30)) {
            return Some(self.rng.pick(&self.view.removed_files));
        }
        if self.view.live_files.is_empty() {
            return None;
        }
        // prefer files of the primary model
        let prim = self.primary().map(|p| p.0);
        let own: Vec<H> = self.view.live_files.iter().filter(|(_, m)| Some(*m) == prim).map(|(f, _)| *f).collect();
        if !own.is_empty() && !self.permille(self.prof.foreign_permille) {
            return Some(self.rng.pick(&own));
        }
        Some(self.rng.pick(&self.view.live_files).0)
    }

    fn version_of(&self, n: &Node) -> AutosarVersion {
        n.e.min_version().unwrap_or(AutosarVersion::LATEST)
    }

    /// choose a sub-element name to create below `n`; `named` selects identifiable kinds
    fn pick_child_name(&mut self, n: &Node, named: bool) -> Option<String> {
        let ver = self.version_of(n);
        let etype = n.e.element_type();
        let pn = n.name.to_str();
        let guide = guide_for(pn);
        let fits = |name: ElementName| -> bool {
            match etype.find_sub_element(name, ver as u32) {
                Some((t, _)) => t.is_named_in_version(ver) == named,
                None => false,
            }
        };
        if !guide.is_empty() && !self.permille(200) {
            let cands: Vec<&str> = guide
                .iter()
                .copied()
                .filter(|c| ElementName::from_str(c).map(|en| fits(en)).unwrap_or(false))
                .collect();
            if !cands.is_empty() {
                return Some(self.rng.pick(&cands).to_string());
            }
        }
        // anything the specification lists for this type
        let all: Vec<ElementName> = etype
            .sub_element_spec_iter()
            .filter(|(_, _, vmask, _)| ver.compatible(*vmask))
            .map(|(name, _, _, _)| name)
            .collect();
        if all.is_empty() {
            return None;
        }
        if self.permille(self.prof.bad_permille) {
            // some name that may or may not be valid here
            if self.permille(self.prof.abuse_permille) {
                return Some("SHORT-NAME".to_string());
            }
            return Some(self.rng.pick(&["ELEMENTS", "AR-PACKAGE", "VALUE", "L-2", "SD"]).to_string());
        }
        let abuse = self.permille(self.prof.abuse_permille);
        for _ in 0..24 {
            let c = self.rng.pick(&all);
            if c == ElementName::ShortName && !abuse {
                continue;
            }
            if fits(c) {
                return Some(c.to_str().to_string());
            }
        }
        None
    }

    fn item_name(&mut self, parent: &Node) -> String {
        if self.permille(self.prof.bad_permille) {
            return self.rng.pick(BAD_NAMES).to_string();
        }
        if parent.name == ElementName::ArPackages {
            self.rng.pick(PKG_NAMES).to_string()
        } else {
            self.rng.pick(ITEM_NAMES).to_string()
        }
    }

    fn position(&mut self, n: &Node) -> usize {
        let len = n.content.len();
        if self.permille(self.prof.bad_permille) {
            return self.rng.pick(&[len + 1, len + 2, usize::MAX, usize::MAX - 1]);
        }
        self.rng.below(len + 1)
    }

    fn some_path(&mut self) -> String {
        // an existing path, a neighbour of one, or a dangling one
        let mut paths: Vec<String> = Vec::new();
        if let Some((_, ms)) = self.primary() {
            for n in &ms.nodes {
                if let Some(p) = &n.cpath {
                    paths.push(p.clone());
                }
            }
        }
        if paths.is_empty() || self.permille(150) {
            return self.rng.pick(&["/pkg1", "/pkg1/e1", "/pkg10/e1", "/A/x", "/nothing/here", "/pkg1/e1/x"]).to_string();
        }
        let p = self.rng.pick(&paths);
        match self.rng.below(10) {
            0 => format!("{p}0"),
            1 => format!("{p}/x"),
            2 => format!("{p}_1"),
            _ => p,
        }
    }

    fn value_for(&mut self, spec: Option<&'static CharacterDataSpec>, ver: AutosarVersion, is_ref: bool, is_short_name: bool) -> String {
        if self.permille(self.prof.bad_permille) {
            return self.rng.pick(&["s:not valid!", "u:99999999999", "e:ABSTRACT", "f:1.5", "s:/a b", "s:-"]).to_string();
        }
        if is_ref {
            return format!("s:{}", self.some_path());
        }
        if is_short_name {
            return format!("s:{}", self.rng.pick(ITEM_NAMES));
        }
        match spec {
            Some(CharacterDataSpec::Enum { items }) => {
                let ok: Vec<&(autosar_data::EnumItem, u32)> = items.iter().filter(|(_, m)| ver.compatible(*m)).collect();
                if ok.is_empty() {
                    "e:ABSTRACT".to_string()
                } else {
                    format!("e:{}", self.rng.pick(&ok).0.to_str())
                }
            }
            Some(CharacterDataSpec::UnsignedInteger) => format!("u:{}", self.rng.pick(&[0u64, 1, 2, 7, 10, 255, 65536])),
            Some(CharacterDataSpec::Float) => format!("f:{}", self.rng.pick(&["0", "1.5", "-2.25", "100"])),
            Some(CharacterDataSpec::Pattern { .. }) => {
                self.rng.pick(&["s:0", "s:1", "s:10", "s:abc", "s:0x1F", "s:true", "s:1.5", "s:a2", "s:2024-01-01"]).to_string()
            }
            Some(CharacterDataSpec::String { .. }) | None => {
                self.rng.pick(&["s:text", "s:abc", "s:x.y", "s:two words", "s:v1", "s:q-r"]).to_string()
            }
        }
    }

    /// one operation of kind `k`, or None if the world offers no operands for it
    pub fn gen_kind(&mut self, k: K) -> Option<Op> {
        let is_container = |n: &Node| matches!(content_mode(n), ContentMode::Sequence | ContentMode::Choice | ContentMode::Bag | ContentMode::Mixed);
        let grow_ok = self.view.total_nodes() < self.max_nodes;
        match k {
            K::MNew => {
                if self.view.models.len() >= 3 {
                    return None;
                }
                Some(Op::new(K::MNew, H::default()))
            }
            K::MCreateFile => {
                let (mh, ms) = self.pick_model()?;
                if ms.files.len() >= 4 {
                    return None;
                }
                let ver = if !ms.files.is_empty() && !self.permille(300) {
                    ms.files[0].ver.filename().to_string()
                } else {
                    self.rng.pick(VERSIONS).to_string()
                };
                let name = self.rng.pick(FILE_NAMES).to_string();
                Some(Op::new(K::MCreateFile, *mh).name(&ver).s(&name))
            }
            K::MLoadBuffer => {
                let (mh, ms) = self.pick_model()?;
                if ms.files.len() >= 4 || !grow_ok {
                    return None;
                }
                let ver = if !ms.files.is_empty() && !self.permille(300) {
                    ms.files[0].ver
                } else {
                    AutosarVersion::from_str(self.rng.pick(VERSIONS)).unwrap()
                };
                let mut bytes = self.make_document(ver, Some(ms)).into_bytes();
                let mut lenient = self.permille(300);
                if self.permille(self.prof.load_fault_permille) && !bytes.is_empty() {
                    match self.rng.below(5) {
                        0 => {
                            let k = self.rng.below(bytes.len());
                            bytes.truncate(k);
                        }
                        1 => {
                            let k = self.rng.below(bytes.len());
                            bytes[k] = self.rng.pick(&[b'<', b'>', b'&', b'"', b'/', b' ', b'X', 0xff, 0, b'?', b'!', b'-', b'=', b';', b'#', b'\n', b'\t', b'\'']);
                        }
                        2 => {
                            // a byte lost or doubled
                            let k = self.rng.below(bytes.len());
                            if self.permille(500) {
                                bytes.remove(k);
                            } else {
                                let b = bytes[k];
                                bytes.insert(k, b);
                            }
                        }
                        3 => {
                            // a quoted value (or what lies between two quotes) blanked
                            let quotes: Vec<usize> = bytes.iter().enumerate().filter(|(_, b)| **b == b'"').map(|(i, _)| i).collect();
                            if quotes.len() >= 2 {
                                let qi = self.rng.below(quotes.len() - 1);
                                for b in bytes[quotes[qi] + 1..quotes[qi + 1]].iter_mut() {
                                    *b = b' ';
                                }
                            }
                        }
                        _ => {
                            // a recoverable defect: the document still loads leniently, with warnings, into an odd model
                            let text = String::from_utf8_lossy(&bytes).to_string();
                            bytes = self.defect_document(&text).into_bytes();
                            lenient = !self.permille(150);
                        }
                    }
                }
                let name = self.rng.pick(FILE_NAMES).to_string();
                Some(Op::new(K::MLoadBuffer, *mh).s(&name).flag(!lenient).bytes(&bytes))
            }
            K::MLoadFile => {
                let (mh, ms) = self.pick_model()?;
                if ms.files.len() >= 4 || !grow_ok {
                    return None;
                }
                let strict = !self.permille(300);
                let fault = if self.permille(self.prof.io_fault_permille) { 2 } else { 0 };
                if self.permille(350) {
                    // whatever the disk holds: something written earlier (by this or another model), torn, or nothing
                    let on_disk: Vec<String> = crate::simfs::listing().into_iter().map(|(p, _)| p.to_string_lossy().to_string()).collect();
                    let name = if !on_disk.is_empty() && !self.permille(150) { self.rng.pick(&on_disk) } else { self.rng.pick(FILE_NAMES).to_string() };
                    return Some(Op::new(K::MLoadFile, *mh).s(&name).flag(strict).n(1 | fault));
                }
                let ver = if !ms.files.is_empty() && !self.permille(300) {
                    ms.files[0].ver
                } else {
                    AutosarVersion::from_str(self.rng.pick(VERSIONS)).unwrap()
                };
                let mut bytes = self.make_document(ver, Some(ms)).into_bytes();
                if self.permille(self.prof.load_fault_permille) && !bytes.is_empty() {
                    // a short file: the tail never reached the disk
                    let k = self.rng.below(bytes.len());
                    bytes.truncate(k);
                }
                let name = self.rng.pick(FILE_NAMES).to_string();
                Some(Op::new(K::MLoadFile, *mh).s(&name).flag(strict).n(fault).bytes(&bytes))
            }
            K::MWrite => {
                let (mh, ms) = self.pick_model()?;
                let mut n = 0;
                if self.permille(self.prof.io_fault_permille) {
                    let k = 1 + self.rng.below(ms.files.len().max(1));
                    let torn = if self.permille(600) { 1 + self.rng.below(99) } else { 0 };
                    n = k + 100 * torn;
                }
                Some(Op::new(K::MWrite, *mh).n(n))
            }
            K::MRemoveFile => {
                let (mh, _) = self.pick_model()?;
                let f = self.pick_file()?;
                Some(Op::new(K::MRemoveFile, *mh).b(f))
            }
            K::MDrop => {
                // only a secondary model, and rarely: its files and elements stay behind as orphans
                if self.view.models.len() < 2 || !self.permille(self.prof.abuse_permille) {
                    return None;
                }
                let i = 1 + self.rng.below(self.view.models.len() - 1);
                Some(Op::new(k, self.view.models[i].0))
            }
            K::MSerializeFiles | K::MFiles | K::MRoot | K::MDuplicate | K::MSort | K::MIdentifiables | K::MCheckRefs | K::MDebug => {
                let (mh, ms) = self.pick_model()?;
                if k == K::MDuplicate && (self.view.models.len() >= 4 || self.view.total_nodes() + ms.nodes.len() > self.max_nodes * 2) {
                    return None;
                }
                Some(Op::new(k, *mh))
            }
            K::MDfs => {
                let (mh, _) = self.pick_model()?;
                Some(Op::new(k, *mh).n(self.rng.below(4)))
            }
            K::MGetByPath | K::MRefsTo => {
                let (mh, _) = self.pick_model()?;
                let p = self.some_path();
                Some(Op::new(k, *mh).s(&p))
            }
            K::FName | K::FVersion | K::FModel | K::FSerialize | K::FStandalone | K::FDebug => Some(Op::new(k, self.pick_file()?)),
            K::FDfs => Some(Op::new(k, self.pick_file()?).n(self.rng.below(4))),
            K::FSetVersion | K::FCheckCompat => {
                let v = self.rng.pick(VERSIONS).to_string();
                Some(Op::new(k, self.pick_file()?).name(&v))
            }
            K::FSetFilename => {
                let n = self.rng.pick(FILE_NAMES).to_string();
                Some(Op::new(k, self.pick_file()?).s(&n))
            }
            K::EParent
            | K::ENamedParent
            | K::EName
            | K::EItemName
            | K::EIsIdent
            | K::EIsRef
            | K::EPath
            | K::EModel
            | K::EContentType
            | K::ECount
            | K::ECData
            | K::EContent
            | K::EPosition
            | K::ESubElements
            | K::EAttrs
            | K::ESerialize
            | K::EListValid
            | K::EFileMembership
            | K::EXmlPath
            | K::EComment
            | K::EMinVersion
            | K::EDebug
            | K::ESort
            | K::ERemoveCData => Some(Op::new(k, self.pick_any_elem()?)),
            K::EGetRef => Some(Op::new(k, self.pick_elem(&|n| n.is_ref)?)),
            K::EGetSub | K::ERemoveKind => {
                let (_, ms) = self.primary()?;
                let deep = k == K::ERemoveKind && !self.permille(120);
                let n = self.pick_node_in(ms, &|n| !n.children.is_empty() && (!deep || n.depth >= 2))
                    .or_else(|| self.pick_node_in(ms, &|n| !n.children.is_empty()))?;
                let c = &ms.nodes[self.rng.pick(&n.children)];
                let name = if k == K::ERemoveKind && c.name == ElementName::ShortName && !self.permille(100) {
                    // mostly avoid the forbidden removal
                    ms.nodes[self.rng.pick(&n.children)].name
                } else {
                    c.name
                };
                Some(Op::new(k, self.node_h(n)?).name(name.to_str()))
            }
            K::EGetSubAt | K::ERemoveCC => {
                let h = self.pick_any_elem()?;
                Some(Op::new(k, h).n(self.rng.below(5)))
            }
            K::EDfs => Some(Op::new(k, self.pick_any_elem()?).n(self.rng.below(4))),
            K::EAttrValue | K::ERemoveAttr => {
                let (_, ms) = self.primary()?;
                let n = self.pick_node_in(ms, &|n| n.head.contains('=') && (k == K::EAttrValue || n.parent.is_some()))?;
                let attrs: Vec<_> = n.e.attributes().collect();
                if attrs.is_empty() {
                    return None;
                }
                let a = self.rng.pick(&attrs).attrname;
                Some(Op::new(k, self.node_h(n)?).name(a.to_str()))
            }
            K::EInsertRange => {
                let (_, ms) = self.primary()?;
                let n = self.pick_node_in(ms, &is_container)?;
                let named = self.rng.chance(1, 2);
                let name = self.pick_child_name(n, named)?;
                let v = self.rng.pick(VERSIONS).to_string();
                Some(Op::new(k, self.node_h(n)?).name(&name).s(&v))
            }
            K::ECmp => {
                let a = self.pick_any_elem()?;
                let b = self.pick_any_elem()?;
                Some(Op::new(k, a).b(b))
            }
            K::ESetItemName => {
                let (_, ms) = self.primary()?;
                let h = if self.permille(100) {
                    self.pick_any_elem()?
                } else {
                    let n = self.pick_node_in(ms, &|n| n.identifiable)?;
                    self.node_h(n)?
                };
                let name = if self.permille(self.prof.bad_permille) {
                    self.rng.pick(BAD_NAMES).to_string()
                } else if self.rng.chance(1, 3) {
                    self.rng.pick(PKG_NAMES).to_string()
                } else {
                    self.rng.pick(ITEM_NAMES).to_string()
                };
                Some(Op::new(k, h).s(&name))
            }
            K::ECreate | K::ECreateAt | K::EGetOrCreate => {
                if !grow_ok {
                    return None;
                }
                let (_, ms) = self.primary()?;
                let stale = !self.view.detached.is_empty() && self.permille(self.prof.stale_permille);
                let n = self.pick_node_in(ms, &is_container)?;
                let name = self.pick_child_name(n, false)?;
                let h = if stale { self.rng.pick(&self.view.detached) } else { self.node_h(n)? };
                let mut op = Op::new(k, h).name(&name);
                if k == K::ECreateAt {
                    op = op.n(self.position(n));
                }
                Some(op)
            }
            K::ECreateNamed | K::ECreateNamedAt | K::EGetOrCreateNamed => {
                if !grow_ok {
                    return None;
                }
                let (_, ms) = self.primary()?;
                let stale = !self.view.detached.is_empty() && self.permille(self.prof.stale_permille);
                let n = self.pick_node_in(ms, &|n| {
                    is_container(n) && (!guide_for(n.name.to_str()).is_empty() || n.name == ElementName::Elements)
                })
                .or_else(|| self.pick_node_in(ms, &is_container))?;
                let name = self.pick_child_name(n, true)?;
                let item = self.item_name(n);
                let h = if stale { self.rng.pick(&self.view.detached) } else { self.node_h(n)? };
                let mut op = Op::new(k, h).name(&name).s(&item);
                if k == K::ECreateNamedAt {
                    op = op.n(self.position(n));
                }
                Some(op)
            }
            K::ECopy | K::ECopyAt | K::EMove | K::EMoveAt => {
                if !grow_ok && matches!(k, K::ECopy | K::ECopyAt) {
                    return None;
                }
                let (_, ms) = self.primary()?;
                // source: any non-root node (sometimes stale / foreign); destination: a parent that accepts the source's kind
                let abuse = self.permille(self.prof.abuse_permille);
                let src_h = if abuse {
                    self.pick_elem(&|n| n.parent.is_some())?
                } else {
                    // a live element that is not a SHORT-NAME
                    let m = if self.view.models.len() > 1 && self.permille(self.prof.foreign_permille) {
                        let i = 1 + self.rng.below(self.view.models.len() - 1);
                        &self.view.models[i]
                    } else {
                        self.primary()?
                    };
                    let n = self.pick_node_in(&m.1, &|n| n.parent.is_some() && n.name != ElementName::ShortName)?;
                    self.node_h(n)?
                };
                let src = self.world.elem(src_h)?;
                let src_name = src.element_name();
                if matches!(k, K::ECopy | K::ECopyAt) {
                    // keep copies small
                    if src.elements_dfs().take(400).count() >= 400 {
                        return None;
                    }
                }
                let dst = if self.permille(self.prof.self_permille) {
                    None
                } else {
                    let accept = |n: &Node| {
                        is_container(n) && n.e.element_type().find_sub_element(src_name, u32::MAX).is_some()
                    };
                    self.pick_node_in(ms, &accept)
                };
                let (dst_h, dst_len) = match dst {
                    Some(n) => (self.node_h(n)?, n.content.len()),
                    None => {
                        if self.rng.chance(1, 2) {
                            (src_h, 0)
                        } else {
                            (self.pick_any_elem()?, 1)
                        }
                    }
                };
                let dst_h = if !self.view.detached.is_empty() && self.permille(self.prof.stale_permille) {
                    self.rng.pick(&self.view.detached)
                } else {
                    dst_h
                };
                let mut op = Op::new(k, dst_h).b(src_h);
                if matches!(k, K::ECopyAt | K::EMoveAt) {
                    let p = if self.permille(self.prof.bad_permille) { usize::MAX } else { self.rng.below(dst_len + 1) };
                    op = op.n(p);
                }
                Some(op)
            }
            K::ERemove => {
                let (_, ms) = self.primary()?;
                if self.permille(self.prof.self_permille) {
                    let h = self.pick_any_elem()?;
                    return Some(Op::new(k, h).b(h));
                }
                let deep = !self.permille(120);
                let n = self.pick_node_in(ms, &|n| n.parent.is_some() && (n.name != ElementName::ShortName) && (!deep || n.depth >= 3))
                    .or_else(|| self.pick_node_in(ms, &|n| n.parent.is_some() && (n.name != ElementName::ShortName)))?;
                let n = if self.permille(60) { self.pick_node_in(ms, &|n| n.parent.is_some())? } else { n };
                let parent = &ms.nodes[n.parent.unwrap()];
                let (ph, ch) = (self.node_h(parent)?, self.node_h(n)?);
                if self.permille(self.prof.bad_permille) {
                    // wrong parent
                    return Some(Op::new(k, self.pick_any_elem()?).b(ch));
                }
                Some(Op::new(k, ph).b(ch))
            }
            K::ESetRef => {
                let (_, ms) = self.primary()?;
                let r = self.pick_node_in(ms, &|n| n.is_ref)?;
                let rh = if self.permille(50) { self.pick_any_elem()? } else { self.node_h(r)? };
                // a target whose kind fits the reference, if there is one
                let rt = r.e.element_type();
                let fits = |n: &Node| n.identifiable && rt.reference_dest_value(&n.e.element_type()).is_some();
                let t = if self.permille(150) { self.pick_elem(&|n| n.identifiable) } else { None };
                let th = match t {
                    Some(h) => h,
                    None => match self.pick_node_in(ms, &fits) {
                        Some(n) => self.node_h(n)?,
                        None => self.pick_elem(&|n| n.identifiable)?,
                    },
                };
                Some(Op::new(k, rh).b(th))
            }
            K::ESetCData => {
                let (_, ms) = self.primary()?;
                let n = self.pick_node_in(ms, &|n| matches!(content_mode(n), ContentMode::Characters) || (matches!(content_mode(n), ContentMode::Mixed) && n.content.len() <= 1))?;
                let h = if self.permille(60) { self.pick_any_elem()? } else { self.node_h(n)? };
                let ver = self.version_of(n);
                let is_sn = n.name == ElementName::ShortName;
                if is_sn && !self.permille(400) {
                    // direct SHORT-NAME edits are interesting but should not dominate
                    return None;
                }
                let val = self.value_for(n.e.element_type().chardata_spec(), ver, n.is_ref, is_sn);
                Some(Op::new(k, h).s(&val))
            }
            K::EInsertCC => {
                let (_, ms) = self.primary()?;
                let n = self.pick_node_in(ms, &|n| matches!(content_mode(n), ContentMode::Mixed))?;
                let p = self.position(n);
                let h = if self.permille(100) { self.pick_any_elem()? } else { self.node_h(n)? };
                Some(Op::new(k, h).s(self.rng.pick(&["text", "more text", "a.b"])).n(p))
            }
            K::ESetAttr | K::ESetAttrStr => {
                // the root's namespace attributes are the file header; leave them alone
                let h = self.pick_elem(&|n| n.parent.is_some())?;
                let e = self.world.elem(h)?;
                let ver = e.min_version().unwrap_or(AutosarVersion::LATEST);
                let etype = e.element_type();
                // only attributes that exist in the element's version (what the API accepts beyond that is C07's business)
                let specs: Vec<_> = etype
                    .attribute_spec_iter()
                    .filter(|(an, _, _)| etype.find_attribute_spec(*an).map(|sp| ver.compatible(sp.version)).unwrap_or(false))
                    .collect();
                let (name, val) = if specs.is_empty() || self.permille(self.prof.bad_permille) {
                    ("UUID".to_string(), "s:1234".to_string())
                } else {
                    let (an, spec, _) = self.rng.pick(&specs);
                    (an.to_str().to_string(), self.value_for(Some(spec), ver, false, false))
                };
                let val = if k == K::ESetAttrStr { val.split_once(':').map(|x| x.1.to_string()).unwrap_or(val) } else { val };
                Some(Op::new(k, h).name(&name).s(&val))
            }
            K::EAddToFile | K::ERemoveFromFile => {
                let (_, ms) = self.primary()?;
                if ms.files.len() < 2 && !self.permille(200) {
                    return None;
                }
                let f = self.pick_file()?;
                // mostly elements below a splittable parent
                let splittable_parent = |n: &Node| n.parent.map(|p| ms.nodes[p].e.element_type().splittable() != 0).unwrap_or(false);
                let n = if self.permille(850) { self.pick_node_in(ms, &splittable_parent) } else { None };
                let h = match n {
                    Some(n) => self.node_h(n)?,
                    None => self.pick_any_elem()?,
                };
                Some(Op::new(k, h).b(f))
            }
            K::ESetComment => {
                let h = self.pick_any_elem()?;
                if self.rng.chance(1, 4) {
                    Some(Op::new(k, h).flag(true))
                } else {
                    Some(Op::new(k, h).s(self.rng.pick(&["a comment", "dashes -- inside", "x"])))
                }
            }
            K::ItOpen => {
                let kind = self.rng.pick(crate::ops::ITER_KINDS);
                let a = match kind {
                    "mdfs" | "idents" | "files" => self.pick_model()?.0,
                    "fdfs" => self.pick_file()?,
                    _ => self.pick_any_elem()?,
                };
                Some(Op::new(k, a).name(kind).n(self.rng.below(3)))
            }
            K::ItNext => {
                let t = self.world.tables();
                if t.iter_order.is_empty() {
                    return None;
                }
                // prefer recent iterators
                let n = t.iter_order.len();
                let i = n - 1 - self.rng.below(n.min(3));
                Some(Op::new(k, t.iter_order[i]))
            }
        }
    }

    pub fn gen_op(&mut self) -> Op {
        let weights: Vec<u32> = self.prof.weights.iter().map(|(_, w)| *w).collect();
        for _ in 0..40 {
            let k = self.prof.weights[self.rng.weighted(&weights)].0;
            if let Some(op) = self.gen_kind(k) {
                return op;
            }
        }
        // always possible
        match self.view.models.first() {
            Some((mh, _)) => Op::new(K::MRoot, *mh),
            None => Op::new(K::MNew, H::default()),
        }
    }

    /// one recoverable defect (unknown / version-foreign / misplaced / repeated / missing parts) in a valid document
    pub fn defect_document(&mut self, text: &str) -> String {
        let lines: Vec<&str> = text.lines().collect();
        let pick_line = |rng: &mut Rng, pred: &dyn Fn(&str) -> bool| -> Option<usize> {
            let idx: Vec<usize> = lines.iter().enumerate().filter(|(_, l)| pred(l)).map(|(i, _)| i).collect();
            if idx.is_empty() { None } else { Some(rng.pick(&idx)) }
        };
        let mut out: Vec<String> = lines.iter().map(|l| l.to_string()).collect();
        match self.rng.below(7) {
            0 => {
                // the header claims another (older or newer) version: content becomes version-foreign
                let v = self.rng.pick(VERSIONS);
                for l in out.iter_mut() {
                    if let Some(p) = l.find("AUTOSAR_") {
                        if let Some(q) = l[p..].find(".xsd") {
                            l.replace_range(p..p + q + 4, v);
                            break;
                        }
                    }
                }
            }
            1 => {
                if let Some(i) = pick_line(self.rng, &|l| l.trim_start().starts_with("<SHORT-NAME>")) {
                    out.remove(i);
                }
            }
            2 => {
                if let Some(i) = pick_line(self.rng, &|l| l.trim_start().starts_with("<SHORT-NAME>")) {
                    let l = out[i].clone();
                    out.insert(i, l);
                }
            }
            3 => {
                if let Some(i) = pick_line(self.rng, &|l| l.trim_end().ends_with('>') && !l.contains("</") && !l.contains("<?") && !l.contains("/>") && !l.contains("<AUTOSAR")) {
                    let l = out[i].clone();
                    out[i] = format!("{} BOGUS=\"1\">", &l[..l.len() - 1]);
                }
            }
            4 => {
                if let Some(i) = pick_line(self.rng, &|l| l.contains("DEST=\"")) {
                    out[i] = out[i].replacen("DEST=\"", "DEST=\"X-", 1);
                }
            }
            5 => {
                // an element that is valid somewhere else, at a place where it is not allowed
                if let Some(i) = pick_line(self.rng, &|l| l.trim() == "<ELEMENTS>") {
                    out.insert(i + 1, "<CONTAINERS/>".to_string());
                }
            }
            _ => {
                // character data where none is allowed
                if let Some(i) = pick_line(self.rng, &|l| l.trim() == "<ELEMENTS>" || l.trim() == "<AR-PACKAGES>") {
                    out.insert(i + 1, "stray text".to_string());
                }
            }
        }
        out.join("\n")
    }

    /// a valid document of the given version, built with the API in a scratch model; shares names with `like` so that merges happen
    pub fn make_document(&mut self, ver: AutosarVersion, like: Option<&ModelSnap>) -> String {
        let m = AutosarModel::new();
        let Ok(file) = m.create_file("doc.arxml", ver) else { return String::new() };
        let root = m.root_element();
        let n_pkgs = 1 + self.rng.below(3);
        if let Ok(pkgs) = root.create_sub_element(ElementName::ArPackages) {
            for _ in 0..n_pkgs {
                let pname = self.rng.pick(PKG_NAMES).to_string();
                let pkg = match pkgs.get_or_create_named_sub_element(ElementName::ArPackage, &pname) {
                    Ok(p) => p,
                    Err(_) => continue,
                };
                let Ok(elements) = pkg.get_or_create_sub_element(ElementName::Elements) else { continue };
                let n_el = self.rng.below(4);
                for _ in 0..n_el {
                    let kind = self.rng.pick(&["SYSTEM-SIGNAL", "I-SIGNAL", "SYSTEM", "CAN-CLUSTER", "ECUC-MODULE-CONFIGURATION-VALUES", "SW-BASE-TYPE"]);
                    let iname = self.rng.pick(ITEM_NAMES).to_string();
                    let Ok(en) = ElementName::from_str(kind) else { continue };
                    let Ok(el) = elements.create_named_sub_element(en, &iname) else { continue };
                    match kind {
                        "I-SIGNAL" => {
                            if let Ok(r) = el.create_sub_element(ElementName::SystemSignalRef) {
                                let target = format!("/{}/{}", self.rng.pick(PKG_NAMES), self.rng.pick(ITEM_NAMES));
                                let _ = r.set_character_data(target);
                                let _ = r.set_attribute_string(autosar_data::AttributeName::Dest, "SYSTEM-SIGNAL");
                            }
                        }
                        "SYSTEM" => {
                            if let Ok(fe) = el.create_sub_element(ElementName::FibexElements) {
                                for _ in 0..self.rng.below(3) {
                                    if let Ok(c) = fe.create_sub_element(ElementName::FibexElementRefConditional) {
                                        if let Ok(r) = c.create_sub_element(ElementName::FibexElementRef) {
                                            let target = format!("/{}/{}", self.rng.pick(PKG_NAMES), self.rng.pick(ITEM_NAMES));
                                            let _ = r.set_character_data(target);
                                            let _ = r.set_attribute_string(autosar_data::AttributeName::Dest, self.rng.pick(&["CAN-CLUSTER", "I-SIGNAL", "ECU-INSTANCE"]));
                                        }
                                    }
                                }
                            }
                        }
                        "ECUC-MODULE-CONFIGURATION-VALUES" => {
                            if let Ok(r) = el.create_sub_element(ElementName::DefinitionRef) {
                                let _ = r.set_character_data(format!("/defs/{}", self.rng.pick(ITEM_NAMES)));
                                let _ = r.set_attribute_string(autosar_data::AttributeName::Dest, "ECUC-MODULE-DEF");
                            }
                            if let Ok(cs) = el.create_sub_element(ElementName::Containers) {
                                for _ in 0..self.rng.below(3) {
                                    let cn = self.rng.pick(ITEM_NAMES).to_string();
                                    if let Ok(c) = cs.create_named_sub_element(ElementName::EcucContainerValue, &cn) {
                                        if let Ok(r) = c.create_sub_element(ElementName::DefinitionRef) {
                                            let _ = r.set_character_data(format!("/defs/c/{}", self.rng.pick(ITEM_NAMES)));
                                            let _ = r.set_attribute_string(autosar_data::AttributeName::Dest, "ECUC-PARAM-CONF-CONTAINER-DEF");
                                        }
                                    }
                                }
                            }
                        }
                        "SW-BASE-TYPE" => {
                            if let Ok(s) = el.create_sub_element(ElementName::BaseTypeSize) {
                                let _ = s.set_character_data(8u64);
                            }
                        }
                        _ => {}
                    }
                }
            }
        }
        // occasionally clone something structural from the model we will be merged into
        let _ = like;
        file.serialize().unwrap_or_default()
    }
}
